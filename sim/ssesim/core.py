"""ssesim.core -- virtual-time asyncio loop, simulated processes and in-memory TCP.

One `Sim` object is one simulated execution.  Everything the system under test
schedules goes through `SimLoop`; the only clock is `SimLoop.time()`; the only
transport is `SimTransport`.  All random choices are stateless functions of
(seed, labels), see `unit()`.
"""
import asyncio
import contextvars
import hashlib
import heapq
import struct
from asyncio import base_events, events, transports

PROC = contextvars.ContextVar("ssesim_proc", default=None)
CONN = contextvars.ContextVar("ssesim_conn", default=None)


class SimCrash(BaseException):
    """delivered inside a simulated process at the instant it is killed"""


class SimDeadlock(Exception):
    """nothing is runnable and no timer is pending"""


class SimLimit(Exception):
    """step or virtual-time cap of a run exceeded"""


class HarnessTimeout(BaseException):
    """wall-clock watchdog fired"""


def h64(*parts) -> int:
    d = hashlib.blake2b(repr(parts).encode(), digest_size=8).digest()
    return struct.unpack(">Q", d)[0]


def unit(*parts) -> float:
    """stateless pseudo-random number in [0, 1) decided by its labels"""
    return (h64(*parts) >> 11) / float(1 << 53)


class Proc:
    def __init__(self, name, skew=1.0, role=None):
        self.name = name
        self.role = role or name  # disk events are counted per role (all incarnations of 'server', all client processes)
        self.alive = True
        self.transports = []
        self.skew = skew
        self.death = None  # future resolved (in harness context) when killed

    def __repr__(self):
        return f"<Proc {self.name} {'up' if self.alive else 'DEAD'}>"


def _alive(ctx):
    p = ctx.get(PROC) if ctx is not None else None
    return p is None or p.alive


class SimHandle(events.Handle):
    __slots__ = ()

    def _run(self):
        loop = self._loop
        loop.steps += 1
        if loop.void or _alive(self._context):
            return super()._run()


class SimTimerHandle(events.TimerHandle):
    __slots__ = ()

    def _run(self):
        loop = self._loop
        loop.steps += 1
        if loop.void or _alive(self._context):
            return super()._run()


class _Selector:
    def __init__(self, loop):
        self.loop = loop

    def select(self, timeout):
        loop = self.loop
        if timeout is None:
            raise SimDeadlock("nothing scheduled")
        if timeout > 0:
            sched = loop._scheduled
            t = loop._vt + timeout
            if sched and abs(sched[0]._when - t) < 1e-9:
                t = sched[0]._when
            # a busy loop does not wake up for every timer separately: everything that falls due within `quantum` of the next
            # timer is handled in the same iteration (in time order), as a real loop that was busy for that long would do
            loop._vt = max(loop._vt, t + loop.quantum)
        return []

    def close(self):
        pass


class SimServer:
    def __init__(self, sim, key, factory, proc, ctx):
        self.sim, self.key, self.factory, self.proc, self.ctx = sim, key, factory, proc, ctx
        self.sockets = []
        self._serving = True

    def close(self):
        if self.sim.listeners.get(self.key) is self:
            del self.sim.listeners[self.key]
        self._serving = False

    async def wait_closed(self):
        return

    def is_serving(self):
        return self._serving

    def get_loop(self):
        return self.sim.loop


class SimTransport(transports.Transport):
    """one end of an in-memory TCP connection"""

    def __init__(self, sim, protocol, cid, side, proc, ctx, extra):
        super().__init__(extra)
        self.sim, self.protocol = sim, protocol
        self.cid, self.side = cid, side  # side: 'c' or 's'
        self.proc, self.ctx = proc, ctx
        self.peer = None
        self.closing = False
        self.closed = False
        self.eof_sent = False
        self.last_deliver = 0.0
        self.seq = 0
        self.paused_reading = False
        self.rx_bytes = 0

    # --- write side
    def write(self, data):
        if self.closing or self.eof_sent:
            return
        data = bytes(data)
        if data:
            self.sim.net_send(self, "data", data)

    def writelines(self, lst):
        for d in lst:
            self.write(d)

    def can_write_eof(self):
        return True

    def write_eof(self):
        if self.eof_sent or self.closing:
            return
        self.eof_sent = True
        self.sim.net_send(self, "eof", None)

    def set_write_buffer_limits(self, high=None, low=None):
        pass

    def get_write_buffer_size(self):
        return 0

    def get_write_buffer_limits(self):
        return (0, 0)

    def is_closing(self):
        return self.closing

    def close(self):
        if self.closing:
            return
        self.closing = True
        self.sim.net_send(self, "close", None)
        self.sim.loop.call_soon(self._conn_lost, None)

    def abort(self):
        if self.closed:
            return
        self.closing = True
        self.sim.count("abort")
        self.sim.net_send(self, "rst", None)
        self.sim.loop.call_soon(self._conn_lost, None)

    def _conn_lost(self, exc):
        if self.closed:
            return
        self.closed = True
        self.closing = True
        self.protocol.connection_lost(exc)

    # --- read side
    def pause_reading(self):
        self.paused_reading = True

    def resume_reading(self):
        self.paused_reading = False

    def is_reading(self):
        return not self.paused_reading

    def set_protocol(self, p):
        self.protocol = p

    def get_protocol(self):
        return self.protocol

    def _deliver(self, kind, data):
        sim = self.sim
        if sim.loop.void:
            return
        sim.log.append(("net", self.cid, self.side, kind, len(data) if data else 0, round(sim.loop._vt, 6)))
        if self.closed:
            return
        if kind == "data":
            self.rx_bytes += len(data)
            self.protocol.data_received(data)
        elif kind == "eof":
            keep = self.protocol.eof_received()
            if not keep:
                self.close()
        elif kind == "close":
            if not self.closing:
                try:
                    self.protocol.eof_received()
                except Exception:
                    pass
                self.closing = True
                self._conn_lost(None)
        elif kind == "rst":
            self.closing = True
            self._conn_lost(ConnectionResetError("sim: connection reset by peer"))


class SimLoop(base_events.BaseEventLoop):
    def __init__(self, sim):
        super().__init__()
        self.sim = sim
        self._vt = 0.0
        self._selector = _Selector(self)
        self.steps = 0
        self.void = False
        self.max_steps = 400_000
        self.max_time = 3600.0
        self.quantum = 0.0

    def time(self):
        return self._vt

    def _process_events(self, event_list):
        pass

    def _write_to_self(self):
        pass

    def _run_once(self):
        if not self.void:
            if self.steps > self.max_steps:
                raise SimLimit(f"step cap {self.max_steps} exceeded at t={self._vt:.3f}")
            if self._vt > self.max_time:
                raise SimLimit(f"virtual time cap {self.max_time} exceeded")
        super()._run_once()

    def _call_soon(self, callback, args, context):
        h = SimHandle(callback, args, self, context)
        self._ready.append(h)
        return h

    def call_at(self, when, callback, *args, context=None):
        p = PROC.get()
        if p is not None and p.skew != 1.0:
            now = self._vt
            if when > now:
                when = now + (when - now) * p.skew
                self.sim.count("timer_skew")
        return self._call_at_raw(when, callback, args, context)

    def _call_at_raw(self, when, callback, args, context=None):
        t = SimTimerHandle(when, callback, args, self, context)
        heapq.heappush(self._scheduled, t)
        t._scheduled = True
        return t

    def run_in_executor(self, executor, func, *args):
        """worker threads are simulated: the function runs atomically, in the caller's process, at a later simulated time drawn
        from the run's seed (0..3 s, biased to short), and its future resolves then.  No real thread ever runs."""
        sim = self.sim
        sim.nexec += 1
        u = unit(sim.net_seed, "executor", sim.nexec)
        delay = 0.001 + (u * u) * 3.0
        fut = self.create_future()
        sim.count("executor_job")

        def job():
            if fut.cancelled():
                return
            try:
                r = func(*args)
            except SimCrash:
                raise
            except BaseException as e:  # noqa: the future carries it, as a real executor would
                if not fut.done():
                    fut.set_exception(e)
                return
            if not fut.done():
                fut.set_result(r)
        self.call_at(self._vt + delay, job)
        return fut

    async def create_server(self, protocol_factory, host=None, port=None, **kw):
        sim = self.sim
        srv = SimServer(sim, (host, port), protocol_factory, PROC.get(), contextvars.copy_context())
        sim.listeners[(host, port)] = srv
        return srv

    async def create_connection(self, protocol_factory, host=None, port=None, **kw):
        sim = self.sim
        sim.nconn += 1
        n = sim.nconn
        await asyncio.sleep(sim.latency(n, "syn", 0))
        srv = sim.listeners.get((host, port))
        if srv is None or (srv.proc is not None and not srv.proc.alive):
            sim.log.append(("refused", n))
            raise ConnectionRefusedError(f"sim: nobody listens on {host}:{port}")
        cproc = PROC.get()
        cproto = protocol_factory()
        ct = SimTransport(sim, cproto, n, "c", cproc, contextvars.copy_context(),
                          {"peername": (host, port), "sockname": ("client", n)})
        if cproc is not None:
            cproc.transports.append(ct)
        sim.transports.append(ct)

        def accept():
            CONN.set(n)
            sproto = srv.factory()
            st = SimTransport(sim, sproto, n, "s", srv.proc, contextvars.copy_context(),
                              {"peername": ("client", n), "sockname": (host, port)})
            if srv.proc is not None:
                srv.proc.transports.append(st)
            sim.transports.append(st)
            ct.peer, st.peer = st, ct
            sim.conn_server_proto[n] = sproto
            sproto._sim_cid = n
            sproto.connection_made(st)

        srv.ctx.copy().run(accept)
        sim.log.append(("accept", n))
        cproto.connection_made(ct)
        return ct, cproto


class Sim:
    """one simulated execution: loop + processes + network + counters + event log"""

    def __init__(self, net_seed=0, net=None):
        self.loop = SimLoop(self)
        self.net_seed = net_seed
        self.netcfg = dict(lo=0.001, hi=0.05, tail=0.0, seg=1, quantum=0.0)
        if net:
            self.netcfg.update(net)
        self.loop.quantum = float(self.netcfg.get("quantum") or 0.0)
        self.listeners = {}
        self.nconn = 0
        self.transports = []
        self.conn_server_proto = {}
        self.procs = []
        self.log = []
        self.counters = {}
        self.stalls = {}  # (cid, side) -> [(from_seq, seconds)]
        self.tasks = []
        self.stall_once = None
        self.nexec = 0
        self.role_k = {}  # role -> number of disk events so far

    # -- bookkeeping
    def count(self, name, n=1):
        self.counters[name] = self.counters.get(name, 0) + n

    def digest(self):
        h = hashlib.sha256()
        for e in self.log:
            h.update(repr(e).encode())
            h.update(b"\n")
        return h.hexdigest()[:24]

    # -- processes
    def new_proc(self, name, skew=1.0, role=None):
        p = Proc(name, skew, role)
        p.death = self.loop.create_future()
        self.procs.append(p)
        return p

    def spawn(self, proc, coro_fn, *a, **kw):
        ctx = contextvars.copy_context()
        ctx.run(PROC.set, proc)
        task = ctx.run(lambda: self.loop.create_task(coro_fn(*a, **kw)))
        self.tasks.append(task)  # asyncio holds tasks weakly; a process' main task must not be collected
        return task

    async def run_in(self, proc, coro_fn, *a, **kw):
        """run a coroutine inside `proc`; returns ('ok', value) | ('exc', exception) | ('died', None)"""
        task = self.spawn(proc, coro_fn, *a, **kw)
        await asyncio.wait({task, proc.death}, return_when=asyncio.FIRST_COMPLETED)
        if task.done() and not task.cancelled():
            exc = task.exception()
            if exc is None:
                return ("ok", task.result())
            if isinstance(exc, SimCrash):
                return ("died", None)
            return ("exc", exc)
        if task.cancelled():
            return ("exc", asyncio.CancelledError())
        return ("died", None)

    def kill(self, proc):
        if not proc.alive:
            return
        proc.alive = False
        self.count("proc_kill")
        self.log.append(("kill", proc.name, round(self.loop._vt, 6)))
        for t in proc.transports:
            if not t.closed and t.peer is not None:
                t.closed = t.closing = True
                self.net_send(t, "rst", None, force=True)
        for key, srv in list(self.listeners.items()):
            if srv.proc is proc:
                del self.listeners[key]
        if proc.death is not None and not proc.death.done():
            # resolve in harness context: the waiter is harness code
            self.loop.call_soon(lambda f=proc.death: (not f.done()) and f.set_result(True),
                                context=contextvars.Context())

    # -- network
    def latency(self, cid, direction, seq):
        c = self.netcfg
        lat = c["lo"] + unit(self.net_seed, "lat", cid, direction, seq) * (c["hi"] - c["lo"])
        if c["tail"] and unit(self.net_seed, "tail", cid, direction, seq) < c["tail"]:
            lat += unit(self.net_seed, "tail2", cid, direction, seq) * 2.0
            self.count("latency_tail")
        return lat

    def net_send(self, src, kind, data, force=False):
        dst = src.peer
        loop = self.loop
        if dst is None or loop.void:
            return
        pieces = [data]
        seg = self.netcfg["seg"]
        if kind == "data" and seg > 1 and len(data) > 1:
            nseg = 1 + int(unit(self.net_seed, "nseg", src.cid, src.side, src.seq) * seg)
            if nseg > 1:
                cuts = sorted({1 + int(unit(self.net_seed, "cut", src.cid, src.side, src.seq, i) * (len(data) - 1))
                               for i in range(nseg - 1)})
                pieces = [data[a:b] for a, b in zip([0] + cuts, cuts + [len(data)])]
                self.count("segmentation", len(pieces) - 1)
        for piece in pieces:
            lat = self.latency(src.cid, src.side, src.seq)
            so = self.stall_once
            if so is not None and kind == "data" and src.side == so[0] and src.seq >= (so[2] if len(so) > 2 else 0):
                lat += so[1]  # a slow node: this direction delivers nothing for so[1] seconds
                self.stall_once = None
                self.count("stall")
            for (frm, secs) in self.stalls.get((src.cid, src.side), ()):
                if src.seq == frm:
                    lat += secs
                    self.count("stall")
            src.seq += 1
            when = max(loop._vt + lat, src.last_deliver + 1e-6)
            src.last_deliver = when
            self.count("latency")
            loop._call_at_raw(when, dst._deliver, (kind, piece), dst.ctx.copy())

    # -- running
    def run(self, coro):
        asyncio.set_event_loop(self.loop)
        return self.loop.run_until_complete(coro)

    def teardown(self):
        """drop everything that is left of this execution without letting it touch the world"""
        import gc
        loop = self.loop
        loop.void = True
        for p in self.procs:
            p.alive = True
        try:
            for _ in range(60):
                tasks = [t for t in asyncio.all_tasks(loop) if not t.done()]
                if not tasks:
                    break
                for t in tasks:
                    t.cancel()
                try:
                    loop.run_until_complete(asyncio.wait(tasks, timeout=0.001))
                except BaseException:
                    pass
            try:
                loop.run_until_complete(loop.shutdown_asyncgens())
            except BaseException:
                pass
        finally:
            loop._ready.clear()
            loop._scheduled.clear()
            loop.close()
            asyncio.set_event_loop(None)
            gc.collect()
