"""setup smoke test: import the working tree, run a few seeds of every built property twice, compare digests"""
import importlib
import os
import sys
import time

from . import prop as P
from .runner import PROPS


def main():
    t0 = time.time()
    bad = 0
    for pid in PROPS:
        path = os.path.join(os.path.dirname(__file__), "props", pid.lower() + ".py")
        if not os.path.exists(path):
            continue
        prop = importlib.import_module(f"ssesim.props.{pid.lower()}").PROPERTY
        prop.setup()
        plans = [prop.gen(P.run_seed(0, pid, i), "quick") for i in range(3)]
        plans += list(prop.enumerate("quick"))[:2]
        d1 = [prop.execute(p).digest for p in plans]
        d2 = [prop.execute(p).digest for p in reversed(plans)][::-1]
        ok = d1 == d2
        bad += not ok
        print(f"selftest {pid}: {len(plans)} plans x2 {'deterministic' if ok else 'HARNESS nondeterminism'}")
    print(f"selftest done in {time.time() - t0:.1f}s")
    return 2 if bad else 0


sys.exit(main())
