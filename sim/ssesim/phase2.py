"""ssesim.phase2 -- the part of a C09 run that follows a *real* restart: a fresh interpreter (other PYTHONHASHSEED, i.e. another
hash salt, fresh module state, fresh allocator) continues on the scratch directory the first interpreter left behind: it boots the
server program, creates the client from disk and runs the searches.  Prints one JSON object."""
import asyncio
import json
import sys


def main():
    with open(sys.argv[1]) as f:
        job = json.load(f)
    from . import core, fe, world
    world.setup_frontend()
    from .props.c09 import GRID, same_result, expand_db
    from .prop import V
    plan, sid = job["plan"], job["sid"]
    knobs = plan["knobs"]
    scheme = knobs["scheme"]
    run = fe.Run(job["seed"], dict(knobs, gc_every=0), wipe=False)
    viol, obs = [], []
    db = expand_db(knobs["db"])

    async def drive():
        run.boot_server()
        await asyncio.sleep(0.01)
        host = fe.ClientHost(run, "client-after-restart")
        for si, st in enumerate(plan["steps"]):
            w = st["w"].encode("utf-8")
            if st.get("recreate"):
                await host.drop()
            r = await host.search(sid, w, fresh=host.obj is None, keep=True)
            if r[0] != "ok":
                viol.append(dict(V("C09.search", "STEP_FAILED", f"after a real restart of the server program (new interpreter, other hash salt) search({st['w']!r}) "
                                                              f"raised {r[1]!r:.120}", site="search-after-real-restart")))
                return
            box, s = r[1]
            if len(box) != 1:
                viol.append(dict(V("C09.search", "WRONG_RESULT", f"search({st['w']!r}): the callback was called {len(box)} times", site="search")))
                return
            got = fe.result_list(s.sse_module_loader, s.config_object, box[0])
            want = db.get(w, [])
            obs.append(["search", "present" if w in db else "absent", "ok", len(want)])
            if not same_result(got, want):
                viol.append(dict(V("C09.search", "WRONG_RESULT", f"after a real restart search({st['w']!r}) delivered {len(got)} identifiers, the database has {len(want)}",
                                   site="search-after-real-restart")))
                return
        await host.drop()
        await asyncio.sleep(2)
    try:
        with world.Watchdog(900):
            try:
                run.sim.run(drive())
            except (core.SimLimit, core.SimDeadlock) as e:
                viol.append(dict(V("C09", "HANG", f"post-restart phase did not finish: {e}")))
        out = dict(violations=viol, obs=obs, digest=run.sim.digest(), sim_seconds=run.sim.loop._vt, counters=run.sim.counters)
    finally:
        run.finish()
    print("PHASE2-RESULT " + json.dumps(out, default=str))


main()
