"""ssesim -- deterministic simulation with fault injection for JezaChen/SSEPy (see /verif/DESIGN.md)"""
