"""ssesim.world -- per-interpreter environment: scratch HOME, repo import, randomness seam,
per-run reset.  Imported by workers only (never by the orchestrating parent)."""
import atexit
import gc
import logging
import os
import random
import shutil
import signal
import sys
import tempfile
import warnings

from . import core

REPO = os.path.realpath(os.environ.get("VERIF_REPO", "/repo"))
_state = {"home": None, "seam": None, "lib": None, "frontend": False}


def scratch_root():
    if _state["home"] is None and os.environ.get("SSESIM_HOME"):
        _state["home"] = os.environ["SSESIM_HOME"]  # a second interpreter continuing on the directory of the first (real restart)
    if _state["home"] is None:
        base = "/dev/shm" if os.path.isdir("/dev/shm") and os.access("/dev/shm", os.W_OK) else None
        home = tempfile.mkdtemp(prefix="ssesim-", dir=base)
        _state["home"] = home
        atexit.register(shutil.rmtree, home, True)
    return _state["home"]


class LibRng:
    """serves os.urandom / random / secrets from the run's `lib` stream"""

    def __init__(self):
        # what the code under test draws while it is being imported (module-level secrets, salts): the same in every worker, but another
        # value in the second interpreter of a real restart -- a new process does not draw the randomness of the old one again
        self.r = random.Random(int(os.environ.get("SSESIM_IMPORT_SEED", "0") or 0))

    def urandom(self, n):
        return self.r.randbytes(n)


def install_randomness():
    if _state["lib"] is None:
        lib = LibRng()
        _state["lib"] = lib
        os.urandom = lib.urandom
        random._urandom = lib.urandom
        import secrets
        secrets.token_bytes = lambda nbytes=None: lib.urandom(32 if nbytes is None else nbytes)
    return _state["lib"]


def seed_randomness(seed):
    lib = install_randomness()
    lib.r = random.Random(core.h64(seed, "lib-urandom"))
    random.seed(core.h64(seed, "lib-random"))


def gc_point(gen=2):
    """the cyclic garbage collector is a scheduler of its own (finalizers run whenever it decides to): it is switched off in
    workers and runs only here -- at the start and end of every run and at the points a plan names -- so that one plan is one
    execution also for code with __del__ methods.  `gen` selects the generation that is collected (CPython's collector is
    generational: an object that survived a collection while it was reachable is finalised later than a younger one)"""
    gc.collect(gen)


def setup_plain():
    """for C19/C20: repo on sys.path, no simulated loop, real files in a scratch dir"""
    gc.disable()
    warnings.simplefilter("ignore")
    if REPO not in sys.path:
        sys.path.insert(0, REPO)
    install_randomness()
    import data_persistence.persistent_array  # noqa: F401
    import data_persistence.persistent_dict  # noqa: F401
    snapshot_repo_state()
    return scratch_root()


def setup_frontend():
    """HOME -> scratch (before any repo import), logging off, FS seam installed"""
    if _state["frontend"]:
        return _state["seam"]
    gc.disable()
    warnings.simplefilter("ignore")
    home = scratch_root()
    os.environ["HOME"] = home
    os.makedirs(os.path.join(home, ".sse", "client"), exist_ok=True)
    os.makedirs(os.path.join(home, ".sse", "log"), exist_ok=True)
    if REPO not in sys.path:
        sys.path.insert(0, REPO)
    logging.disable(logging.CRITICAL)
    install_randomness()
    from . import fsseam
    seam = fsseam.Seam(os.path.join(home, ".sse"), REPO)
    seam.install()
    _state["seam"] = seam
    import global_config
    global_config.ClientConfig.SERVER_URI = "ws://simhost:8001"
    import frontend.server.connector as conn
    import frontend.client.services.service  # noqa: F401  (creates its logger and log file now, outside any run)
    assert os.path.realpath(conn.__file__).startswith(REPO), conn.__file__
    import schemes
    for name in ("CGKO06.SSE1", "CGKO06.SSE2", "CJJ14.PiBas", "CJJ14.PiPack", "CJJ14.PiPtr", "CJJ14.Pi2Lev", "CT14.Pi", "ANSS16.Scheme3", "DP17.Pi"):
        schemes.load_sse_module(name)
    snapshot_repo_state()
    _state["frontend"] = True
    return seam


_SNAP = {}
_CLASS_SNAP = {}
_DEFAULTS_SNAP = {}


def _snap_defaults(fn):
    """mutable default arguments are process-wide state too"""
    d = getattr(fn, "__defaults__", None)
    kd = getattr(fn, "__kwdefaults__", None)
    items = [x for x in (d or ())] + [x for x in (kd or {}).values()]
    snap = [(x, type(x), x.copy()) for x in items if type(x) in (dict, list, set)]
    if snap and fn not in _DEFAULTS_SNAP:
        _DEFAULTS_SNAP[fn] = snap


_MODCACHE = [0, []]


def _repo_modules():
    if _MODCACHE[0] != len(sys.modules):
        found = []
        for name, mod in list(sys.modules.items()):
            f = getattr(mod, "__file__", None)
            if f and os.path.realpath(f).startswith(REPO + os.sep):
                found.append((name, mod))
        _MODCACHE[0], _MODCACHE[1] = len(sys.modules), found
    return _MODCACHE[1]


def snapshot_repo_state():
    """module-level state of the code under test as a freshly started interpreter has it: the set of global names of every
    repo module and a shallow copy of every plain container among them"""
    for name, mod in _repo_modules():
        if name in _SNAP:
            continue
        g = vars(mod)
        _SNAP[name] = (set(g), {k: (type(v), v.copy()) for k, v in g.items() if type(v) in (dict, list, set)})
        for k, v in list(g.items()):
            # class-level containers of classes defined in this module are process-wide state as well
            if isinstance(v, type) and getattr(v, "__module__", None) == name and v not in _CLASS_SNAP:
                _CLASS_SNAP[v] = {a: (type(x), x.copy()) for a, x in vars(v).items() if type(x) in (dict, list, set)}
                for a, x in vars(v).items():
                    _snap_defaults(getattr(x, "__func__", x))
            elif getattr(v, "__module__", None) == name:
                _snap_defaults(v)


def restore_repo_state():
    """undo what earlier runs of this interpreter left in module-level state of the code under test (a run must not see
    another run's caches: one plan = one execution)"""
    for name, mod in _repo_modules():
        snap = _SNAP.get(name)
        g = vars(mod)
        if snap is None:
            snapshot_repo_state()
            continue
        names, containers = snap
        for k in [k for k, v in g.items() if k not in names and not k.startswith("__")
                  and not isinstance(v, (type(sys), type)) and not callable(v)]:
            del g[k]  # data a previous run added (lazily imported submodules, functions and classes are left alone)
        for k, (tp, copy_) in containers.items():
            cur = g.get(k)
            if type(cur) is tp and cur != copy_:
                cur.clear()
                cur.update(copy_) if tp is not list else cur.extend(copy_)
    for fn, snap in _DEFAULTS_SNAP.items():
        for cur, tp, copy_ in snap:
            if cur != copy_:
                cur.clear()
                cur.update(copy_) if tp is not list else cur.extend(copy_)
    for cls_, attrs in _CLASS_SNAP.items():
        for a, (tp, copy_) in attrs.items():
            cur = vars(cls_).get(a)
            if type(cur) is tp and cur != copy_:
                cur.clear()
                cur.update(copy_) if tp is not list else cur.extend(copy_)


def sse_dir():
    return os.path.join(scratch_root(), ".sse")


def wipe_sse():
    """fresh disk for a run (the log directory is kept: the repo's loggers hold files there)"""
    root = sse_dir()
    os.makedirs(os.path.join(root, "client"), exist_ok=True)  # (a run may have removed it)
    os.makedirs(os.path.join(root, "log"), exist_ok=True)
    for name in os.listdir(root):
        p = os.path.join(root, name)
        if name == "log":
            continue
        if name == "client":
            for n2 in os.listdir(p):
                q = os.path.join(p, n2)
                shutil.rmtree(q, ignore_errors=True) if os.path.isdir(q) else os.unlink(q)
            continue
        shutil.rmtree(p, ignore_errors=True) if os.path.isdir(p) else os.unlink(p)


SERVER_PORTS = [8001]  # a server process may serve through more than one listener (run_server called once per port)


async def server_main():
    """the repo's real server entry point, frontend/server/connector.run_server, on a fresh manager --
    what a freshly started server process has"""
    import importlib
    import frontend.server.connector as conn
    # module-level state of the server's entry module as a new process has it: re-execute the module (its connection
    # manager, however it is created, starts from scratch)
    conn = importlib.reload(conn)
    if len(SERVER_PORTS) == 1:
        await conn.run_server("simhost", SERVER_PORTS[0])
    else:
        import asyncio
        await asyncio.gather(*[conn.run_server("simhost", port) for port in list(SERVER_PORTS)])


class Watchdog:
    """wall-clock guard around one run: code that spins without yielding"""

    def __init__(self, seconds=30):
        self.seconds = seconds

    def __enter__(self):
        def fire(signum, frame):
            raise core.HarnessTimeout(f"wall-clock watchdog {self.seconds}s")
        self.old = signal.signal(signal.SIGALRM, fire)
        signal.setitimer(signal.ITIMER_REAL, self.seconds)
        return self

    def __exit__(self, *exc):
        signal.setitimer(signal.ITIMER_REAL, 0)
        signal.signal(signal.SIGALRM, self.old)
        return False
