import sys
from ssesim.runner import main
sys.exit(main())
