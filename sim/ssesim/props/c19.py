"""C19 -- persistent fixed-length byte array vs list model, with close/reopen as the restart."""
import math
import os
import random
import shutil

from .. import prop as P
from ..prop import V, hx, unhx

BAD_KINDS = ["long", "str", "int", "none", "list", "float", "longstr"]


def mkbad(d, isz):
    t = d["t"]
    if t == "long":
        return unhx(d["v"])
    if t == "str":
        return "s"
    if t == "longstr":
        return "s" * (isz + 1)
    if t == "int":
        return 5
    if t == "none":
        return None
    if t == "list":
        return [1, 2]
    return 1.5


def pad(v, n):
    return b"\x00" * (n - len(v)) + bytes(v)


def mkslice(s):
    return slice(s[0], s[1], s[2])


def outcome(f):
    try:
        return ("ok", f())
    except Exception as e:
        return ("exc", type(e).__name__)


class C19(P.Property):
    pid = "C19"
    level = "exploration"
    mode = "plain"
    tiers = {"quick": dict(runs=160000, budget_s=50), "thorough": dict(runs=4000000, budget_s=780)}
    level_text = ("seeded exploration of operation histories (failing operations placed inside slice assignments, close/reopen and "
                  "context-manager exit at arbitrary points, iteration interleaved with reads, a second array open at a sibling path, "
                  "geometries beyond the quantifier's box in 6 % of runs) against a list reference model, checked after every step; a "
                  "clean batch is evidence, not proof")
    level_note = ("trusted: the list model and the interpreter in sim/ssesim/props/c19.py, CPython's io stack; the restart is a "
                  "clean close+open (no torn writes: the property names none)")
    technique = "seeded operation histories with close/reopen against a list reference model (deterministic simulation, history-only)"
    rule = ("seeded histories (geometry + 1..40 operations incl. failing operations, close, reopen, operations while closed) "
            "interpreted on the real SPFLBArray over real files and on a list model; non-trivial = at least one successful "
            "mutation and at least one reopen; distinct = digest of (geometry class, op kind, outcome kind)* sequence")
    real_stub = {"data_persistence.persistent_array (SPFLBArray and its underlying multi-file array)": "real, from the working tree",
                 "files": "real files in a per-worker scratch directory (C io stack)",
                 "restart": "simulated as close() + SPFLBArray.open(path) (drops the per-chunk file cache)",
                 "randomness": "seeded"}
    assumptions = ["crash model is a clean close/reopen: the property names no other fault for the array",
                   "exception type is prescribed only for out-of-range reads (IndexError) and closed-array use (ValueError); "
                   "a refused write may raise any exception"]
    probe_names = ["membership_probe_of_other_length", "slice_one_shot_values", "neg_read_after_reopen", "neg_read_last_chunk_unopened", "slice_fail_pos_ge1", "neg_step_slice_fail",
                   "len_not_multiple_of_chunk", "chunk_gt_len", "op_while_closed", "reopen", "step0_slice", "from_list", "bystander_array", "interleaved_iteration", "write_during_iteration", "ctx_raise"]

    def setup(self):
        from .. import world
        self.root = os.path.join(world.setup_plain(), "c19")
        from data_persistence.persistent_array import SPFLBArray
        self.cls = SPFLBArray

    # ------------------------------------------------------------------ generation
    def gen(self, seed, tier):
        rng = P.stream(seed, "workload")
        n = rng.randint(1, 40) if rng.random() < 0.7 else rng.randint(1, 8)
        isz = rng.randint(1, 9)
        if rng.random() < 0.06:  # beyond the quantifier's box: the statement says "every array length, item size and chunk size"
            n = rng.choice([64, 100, 129, 256, 300])
            isz = rng.choice([1, 16, 33, 64, 200])
        chunk = rng.choice([1, n, n + 1, n + 2, max(1, n - 1), rng.randint(1, n + 2), rng.randint(1, n + 2),
                            max(1, n // 2), max(1, n // 2 + 1)])
        init = None
        if rng.random() < 0.5:
            init = [hx(rng.randbytes(rng.randint(1, isz))) for _ in range(rng.randint(1, n))]
            init[rng.randrange(len(init))] = hx(rng.randbytes(isz))
        # swarm: which op kinds are enabled in this run
        allops = ["get", "set", "setbad", "del", "gslice", "sslice", "sslice_bad", "dslice", "clear", "iter", "contains",
                  "len", "reopen", "close", "reversed", "count", "getneg", "iter2"]
        bystander = None
        if rng.random() < 0.25:
            # a second, unrelated array open in the same process while the history runs
            bn = rng.randint(1, 12)
            bystander = {"n": bn, "isz": rng.choice([isz, rng.randint(1, 9)]), "chunk": rng.choice([chunk, 1, bn, rng.randint(1, bn + 1)])}
            allops += ["by", "by", "by"]
        enabled = [o for o in allops if rng.random() < 0.75] or ["get", "set", "reopen"]
        if rng.random() < 0.6 and "reopen" not in enabled:
            enabled.append("reopen")

        def rv():
            return hx(rng.randbytes(rng.randint(0, isz)))

        def bad():
            t = rng.choice(BAD_KINDS)
            d = {"t": t}
            if t == "long":
                d["v"] = hx(rng.randbytes(isz + rng.randint(1, 3)))
            return d

        def ri():
            return rng.randint(-n - 2, n + 1)

        def rs():
            def f():
                return rng.choice([None, rng.randint(-n - 3, n + 3), rng.randint(-3, 3)])
            st = rng.choice([None, 1, 1, -1, 2, -2, 3, 0, rng.randint(-n, n)])
            return [f(), f(), st]

        steps = []
        for _ in range(rng.randint(1, 40)):
            op = rng.choice(enabled)
            if op == "get":
                steps.append({"op": "get", "i": ri()})
            elif op == "getneg":
                steps.append({"op": "get", "i": -rng.randint(1, n)})
            elif op == "set":
                steps.append({"op": "set", "i": ri(), "v": rv(), "ba": rng.random() < 0.3})
            elif op == "setbad":
                steps.append({"op": "setbad", "i": rng.randrange(n) - rng.choice([0, n]), "bad": bad()})
            elif op == "del":
                steps.append({"op": "del", "i": ri()})
            elif op == "gslice":
                steps.append({"op": "gslice", "s": rs()})
            elif op in ("sslice", "sslice_bad"):
                s = rs()
                try:
                    ln = len(range(*mkslice(s).indices(n)))
                except ValueError:
                    ln = 0
                k = rng.choice([0, 1, ln, ln + 2, rng.randint(0, n + 2)])
                st = {"op": "sslice", "s": s, "vals": [rv() for _ in range(k)]}
                if rng.random() < 0.35:
                    st["wrap"] = rng.choice(["gen", "iter", "tuple", "gen_reading"])
                    if st["wrap"] == "gen_reading":  # a generator that reads the array it is being assigned to (an item, a membership test) before each value
                        st["peek"] = [rng.randrange(-1, n) for _ in range(3)]  # the values arrive as a one-shot iterable (generator, iterator) or a tuple
                if op == "sslice_bad":
                    if k and rng.random() < 0.9:
                        st["badpos"] = rng.randrange(k)
                        st["bad"] = bad()
                    else:
                        st["vals"] = None  # not iterable at all
                steps.append(st)
            elif op == "dslice":
                steps.append({"op": "dslice", "s": rs()})
            elif op == "contains":
                steps.append({"op": "contains", "pick": rng.randrange(n + 1), "v": hx(rng.randbytes(isz))})
                if rng.random() < 0.3:
                    steps[-1]["probe"] = rng.choice(["stripped", "empty", "longer"])  # a probe that is not item_size bytes long equals no item of a list
            elif op == "count":
                steps.append({"op": "count", "pick": rng.randrange(n)})
            elif op == "close":
                steps.append({"op": op, "ctx": rng.random() < 0.3})
                if steps[-1]["ctx"] and rng.random() < 0.5:
                    # the with-block's body ends in a failing operation: it raises out of the block like out of any other statement
                    steps[-1]["raise_in"] = rng.choice(["index", "oversize", "nonbytes"])
            elif op == "iter2":
                steps.append({"op": op, "reads": [rng.randrange(n) for _ in range(rng.randint(1, 4))], "twin": rng.random() < 0.3,
                              # writes made while the iterator is suspended: [after how many items, index, value]; a list iterator sees them
                              "writes": ([[rng.randrange(n), rng.randrange(n), hx(rng.randbytes(rng.randint(0, isz)))] for _ in range(rng.randint(1, 3))]
                                         if rng.random() < 0.4 else [])})
            elif op == "by":
                bd = rng.choice(["set", "set", "get", "reopen", "clear"])
                steps.append({"op": "by", "do": bd, "i": rng.randrange(bystander["n"]), "v": hx(rng.randbytes(rng.randint(0, bystander["isz"])))})
            else:
                steps.append({"op": op})
        return {"property": "C19", "seed": seed, "geom": {"n": n, "isz": isz, "chunk": chunk, "init": init, "bystander": bystander}, "steps": steps}

    # ------------------------------------------------------------------ execution
    def execute(self, plan):
        from .. import world
        world.restore_repo_state()  # one plan = one execution: nothing of an earlier run in module-, class- or default-argument state
        res = P.Result()
        g = plan["geom"]
        n, isz, chunk = g["n"], g["isz"], g["chunk"]
        D = self.root
        shutil.rmtree(D, ignore_errors=True)
        os.makedirs(D)
        path = os.path.join(D, "arr")
        cls = self.cls
        obs = []
        probes = res.probes
        viol = res.violations

        def probe(name):
            probes[name] = probes.get(name, 0) + 1

        if n % chunk:
            probe("len_not_multiple_of_chunk")
        if chunk > n:
            probe("chunk_gt_len")
        by = g.get("bystander")
        b = bmodel = None
        bpath = os.path.join(D, "arr_7")  # a sibling whose name extends the main array's path the way a numbered shard would
        if by:
            probe("bystander_array")
            b = cls.create(bpath, item_size=by["isz"], array_len=by["n"], item_num_in_one_file=by["chunk"])
            bmodel = [b"\x00" * by["isz"]] * by["n"]
            b[0] = b"\x01"
            bmodel[0] = pad(b"\x01", by["isz"])
        if g.get("init") is None:
            a = cls.create(path, item_size=isz, array_len=n, item_num_in_one_file=chunk)
            model = [b"\x00" * isz] * n
        else:
            init = [unhx(x) for x in g["init"]]
            a = cls.from_list(list(init), path, chunk_size=chunk, item_size=isz, list_len=n)
            model = [pad(v, isz) for v in init] + [b"\x00" * isz] * (n - len(init))
            probe("from_list")
        closed = False
        mutated = reopened = False
        since_reopen = 0  # operations since the last (re)open
        nfiles = math.ceil(n / chunk)
        allowed = {"arr_meta"} | {f"arr_{k}" for k in range(nfiles)}
        if by:
            allowed |= {"arr_7_meta"} | {f"arr_7_{k}" for k in range(math.ceil(by["n"] / by["chunk"]))}

        def by_check(si):
            got = outcome(lambda: b[:])
            if got != ("ok", bmodel):
                viol.append(V("C19.state", "MODEL_MISMATCH", f"step {si}: a second, unrelated array open in the same process reads {got!r:.60}, "
                                                          f"its own list model differs (arrays interfere)", step=si))
                return False
            return True
        touched_last = g.get("init") is not None and len(g["init"]) > (nfiles - 1) * chunk

        def files_ok(si):
            extra = set(os.listdir(D)) - allowed
            if extra:
                viol.append(V("C19.files", "STRAY_FILE", f"step {si}: unexpected files {sorted(extra)}", step=si))
                return False
            return True

        def full_check(si, why):
            got = outcome(lambda: a[:])
            if got[0] == "ok" and (type(got[1]) is not list or any(type(x) is not bytes for x in got[1])):
                kinds = sorted({type(x).__name__ for x in got[1]}) if isinstance(got[1], list) else type(got[1]).__name__
                viol.append(V("C19.read", "MODEL_MISMATCH", f"step {si} ({why}): a full read gives {kinds}, a list of bytes items gives bytes objects "
                                                         f"(hashable, immutable)", step=si))
                return False
            if got != ("ok", model):
                bad_ix = [i for i in range(n) if got[0] == "ok" and got[1][i] != model[i]][:5] if got[0] == "ok" else got
                viol.append(V("C19.state", "MODEL_MISMATCH", f"step {si} ({why}): full read differs from model at {bad_ix}", step=si))
                return False
            return True

        try:
            for si, st in enumerate(plan["steps"]):
                op = st["op"]
                if op == "by":
                    if b is None:
                        continue
                    bd = st["do"]
                    if bd == "set":
                        v = unhx(st["v"])[:by["isz"]]
                        o = outcome(lambda: b.__setitem__(st["i"] % by["n"], v))
                        if o[0] != "ok":
                            viol.append(V("C19.write", "MODEL_MISMATCH", f"step {si}: write to the second array failed: {o}", step=si))
                            break
                        bmodel[st["i"] % by["n"]] = pad(v, by["isz"])
                    elif bd == "clear":
                        b.clear()
                        bmodel = [b"\x00" * by["isz"]] * by["n"]
                    elif bd == "reopen":
                        b.close()
                        o = outcome(lambda: cls.open(bpath))
                        if o[0] != "ok":
                            viol.append(V("C19.reopen", "UNUSABLE", f"step {si}: the second array can no longer be opened: {o} (arrays interfere)", step=si))
                            break
                        b = o[1]
                    obs.append(("by", bd))
                    if not by_check(si):
                        break
                    if not closed and not full_check(si, "after an operation on a second, unrelated array"):
                        break
                    if not files_ok(si):
                        break
                    continue
                if closed and op != "reopen":
                    probe("op_while_closed")
                    f = self._closed_op(a, st, isz)
                    if f is not None:
                        o = outcome(f)
                        obs.append((op, "closed", o[0]))
                        if o[0] != "exc":  # the property says "raise", not which exception
                            viol.append(V("C19.closed", "MODEL_MISMATCH", f"step {si}: {op} on a closed array gave {o!r:.80}, expected an exception", step=si))
                            break
                    continue
                if op == "get":
                    i = st["i"]
                    if i < 0 and -i <= n:
                        if since_reopen == 0 and reopened:
                            probe("neg_read_after_reopen")
                        if not touched_last:
                            probe("neg_read_last_chunk_unopened")
                    exp = outcome(lambda: model[i])
                    got = outcome(lambda: a[i])
                    obs.append((op, got[0]))
                    if exp != got:
                        viol.append(V("C19.read", "MODEL_MISMATCH", f"step {si}: a[{i}] -> {got!r:.80}, list model -> {exp!r:.80}", step=si))
                        break
                elif op == "set":
                    i = st["i"]
                    v = unhx(st["v"])
                    val = bytearray(v) if st.get("ba") else v
                    exp = outcome(lambda: model[i])
                    got = outcome(lambda: a.__setitem__(i, val))
                    obs.append((op, got[0]))
                    if exp[0] == "ok":
                        if got[0] != "ok":
                            viol.append(V("C19.write", "MODEL_MISMATCH", f"step {si}: a[{i}] = {len(v)} bytes refused: {got}", step=si))
                            break
                        model[i] = pad(v, isz)
                        mutated = True
                        if i % n >= (nfiles - 1) * chunk:
                            touched_last = True
                    elif got[0] != "exc":
                        viol.append(V("C19.write", "MODEL_MISMATCH", f"step {si}: a[{i}] = v accepted although out of range", step=si))
                        break
                    if not full_check(si, "after set"):
                        break
                elif op == "setbad":
                    i = st["i"]
                    v = mkbad(st["bad"], isz)
                    got = outcome(lambda: a.__setitem__(i, v))
                    obs.append((op, got[0]))
                    if got[0] != "exc":
                        viol.append(V("C19.refuse", "MODEL_MISMATCH", f"step {si}: a[{i}] = {st['bad']} accepted", step=si))
                        break
                    if not full_check(si, "after refused set"):
                        break
                elif op == "del":
                    i = st["i"]
                    exp = outcome(lambda: model[i])
                    got = outcome(lambda: a.__delitem__(i))
                    obs.append((op, got[0]))
                    if exp[0] == "ok":
                        if got[0] != "ok":
                            viol.append(V("C19.write", "MODEL_MISMATCH", f"step {si}: del a[{i}] failed: {got}", step=si))
                            break
                        model[i] = b"\x00" * isz
                        mutated = True
                    elif got[0] != "exc":
                        viol.append(V("C19.write", "MODEL_MISMATCH", f"step {si}: del a[{i}] accepted although out of range", step=si))
                        break
                    if not full_check(si, "after del"):
                        break
                elif op == "gslice":
                    s = mkslice(st["s"])
                    if st["s"][2] == 0:
                        probe("step0_slice")
                    exp = outcome(lambda: model[s])
                    got = outcome(lambda: a[s])
                    obs.append((op, got[0]))
                    if exp != got:
                        viol.append(V("C19.read", "MODEL_MISMATCH", f"step {si}: a[{st['s']}] differs from list model ({got[0]} vs {exp[0]})", step=si))
                        break
                elif op == "sslice":
                    s = mkslice(st["s"])
                    try:
                        idx = list(range(*s.indices(n)))
                    except ValueError:
                        idx = None
                        probe("step0_slice")
                    if st["vals"] is None:
                        vals = None
                        m = None
                    else:
                        vals = [unhx(x) for x in st["vals"]]
                        badpos = st.get("badpos")
                        if badpos is not None and badpos < len(vals):
                            vals[badpos] = mkbad(st["bad"], isz)
                        else:
                            badpos = None
                    wrap = st.get("wrap") if vals is not None else None
                    if wrap in ("gen", "iter", "gen_reading"):
                        probe("slice_one_shot_values")

                    def reading(vals_, peek):
                        for q, x in enumerate(vals_):
                            j = peek[q % len(peek)]
                            if j < 0:
                                (b"\x01" * isz) in a  # a membership test walks the whole array
                            else:
                                a[j]
                            yield x
                    given = (5 if vals is None else (x for x in vals) if wrap == "gen" else iter(vals) if wrap == "iter" else tuple(vals) if wrap == "tuple"
                             else reading(vals, st["peek"]) if wrap == "gen_reading" else vals)
                    got = outcome(lambda: a.__setitem__(s, given))
                    obs.append((op, got[0]))
                    if idx is None or vals is None:
                        if got[0] != "exc":
                            viol.append(V("C19.refuse", "MODEL_MISMATCH", f"step {si}: slice assignment with step 0 / non-iterable accepted", step=si))
                            break
                    else:
                        m = min(len(idx), len(vals))
                        if badpos is not None and badpos < m:
                            if badpos >= 1:
                                probe("slice_fail_pos_ge1")
                            if (st["s"][2] or 1) < 0:
                                probe("neg_step_slice_fail")
                            if got[0] != "exc":
                                viol.append(V("C19.refuse", "MODEL_MISMATCH", f"step {si}: slice assignment with bad item {st['bad']} at {badpos} accepted", step=si))
                                break
                        else:
                            if got[0] != "ok":
                                viol.append(V("C19.write", "MODEL_MISMATCH", f"step {si}: slice assignment {st['s']} x{len(vals)} failed: {got}", step=si))
                                break
                            for j in range(m):
                                model[idx[j]] = pad(vals[j], isz)
                            if m:
                                mutated = True
                    if not full_check(si, "after slice assignment" if got[0] == "ok" else "after failed slice assignment (rollback)"):
                        break
                elif op == "dslice":
                    s = mkslice(st["s"])
                    try:
                        idx = list(range(*s.indices(n)))
                    except ValueError:
                        idx = None
                    got = outcome(lambda: a.__delitem__(s))
                    obs.append((op, got[0]))
                    if idx is None:
                        if got[0] != "exc":
                            viol.append(V("C19.refuse", "MODEL_MISMATCH", f"step {si}: del with step 0 accepted", step=si))
                            break
                    else:
                        if got[0] != "ok":
                            viol.append(V("C19.write", "MODEL_MISMATCH", f"step {si}: del a[{st['s']}] failed: {got}", step=si))
                            break
                        for j in idx:
                            model[j] = b"\x00" * isz
                        if idx:
                            mutated = True
                    if not full_check(si, "after slice delete"):
                        break
                elif op == "clear":
                    got = outcome(lambda: a.clear())
                    obs.append((op, got[0]))
                    if got[0] != "ok":
                        viol.append(V("C19.write", "MODEL_MISMATCH", f"step {si}: clear failed: {got}", step=si))
                        break
                    model = [b"\x00" * isz] * n
                    mutated = True
                    if not full_check(si, "after clear"):
                        break
                elif op == "iter":
                    got = outcome(lambda: list(a))
                    obs.append((op, got[0]))
                    if got != ("ok", model):
                        viol.append(V("C19.read", "MODEL_MISMATCH", f"step {si}: list(a) differs from model", step=si))
                        break
                elif op == "iter2":
                    # iteration interleaved with other reads of the same array (and optionally a second iterator)
                    probe("interleaved_iteration")

                    writes = {}
                    for wk, wj, wv in st.get("writes") or []:
                        writes.setdefault(wk % n, []).append((wj % n, unhx(wv)))
                    expected_iter = []

                    def walk():
                        it = iter(a)
                        it2 = iter(a) if st.get("twin") else None
                        out_, bad_ = [], None
                        for k in range(n):
                            expected_iter.append(model[k])  # what a list iterator yields now
                            out_.append(next(it))
                            for wj, wv in writes.get(k, ()):
                                a[wj] = wv
                                model[wj] = pad(wv, isz)
                            j = st["reads"][k % len(st["reads"])] % n
                            if a[j] != model[j]:
                                bad_ = ("read", j)
                            if it2 is not None and k % 2 == 0:
                                if next(it2) != model[k // 2]:
                                    bad_ = ("second iterator", k // 2)
                        try:
                            next(it)
                            bad_ = ("no StopIteration", n)
                        except StopIteration:
                            pass
                        return out_, bad_
                    got = outcome(walk)
                    obs.append((op, got[0]))
                    if writes:
                        probe("write_during_iteration")
                        mutated = True
                    if got[0] != "ok" or got[1][0] != expected_iter or got[1][1] is not None:
                        what = got if got[0] != "ok" else (got[1][1] or [i for i in range(n) if got[1][0][i] != expected_iter[i]][:5])
                        viol.append(V("C19.read", "MODEL_MISMATCH", f"step {si}: iteration interleaved with other reads differs from the list model: {what!r:.80}", step=si))
                        break
                elif op == "reversed":
                    got = outcome(lambda: list(reversed(a)))
                    obs.append((op, got[0]))
                    if got != ("ok", model[::-1]):
                        viol.append(V("C19.read", "MODEL_MISMATCH", f"step {si}: reversed(a) differs from model", step=si))
                        break
                elif op == "count":
                    v = model[st["pick"] % n]
                    got = outcome(lambda: a.count(v))
                    obs.append((op, got[0]))
                    if got != ("ok", model.count(v)):
                        viol.append(V("C19.read", "MODEL_MISMATCH", f"step {si}: count differs: {got} vs {model.count(v)}", step=si))
                        break
                elif op == "contains":
                    v = model[st["pick"]] if st["pick"] < n else pad(unhx(st["v"]), isz)
                    pk = st.get("probe")
                    if pk:
                        probe("membership_probe_of_other_length")
                        v = v.lstrip(b"\x00") if pk == "stripped" else b"" if pk == "empty" else b"\x00" + v
                    got = outcome(lambda: v in a)
                    obs.append((op, got[0]))
                    if got != ("ok", v in model):
                        viol.append(V("C19.read", "MODEL_MISMATCH", f"step {si}: membership differs: {got} vs {v in model}", step=si))
                        break
                elif op == "len":
                    got = outcome(lambda: len(a))
                    obs.append((op, got[0]))
                    if got != ("ok", n):
                        viol.append(V("C19.read", "MODEL_MISMATCH", f"step {si}: len {got} vs {n}", step=si))
                        break
                elif op == "reopen":
                    probe("reopen")
                    if not closed:
                        a.close()
                    got = outcome(lambda: cls.open(path))
                    obs.append((op, got[0]))
                    if got[0] != "ok":
                        viol.append(V("C19.reopen", "UNUSABLE", f"step {si}: open after close failed: {got}", step=si))
                        break
                    a = got[1]
                    closed = False
                    reopened = True
                    since_reopen = -1

                    touched_last = False
                    if not files_ok(si):
                        break
                    # the content check is left to later reads / the final check so that the
                    # lazily filled file cache stays empty for the next operation
                elif op == "close":
                    if st.get("ctx") and st.get("raise_in"):
                        probe("ctx_raise")
                        how, reached = st["raise_in"], []

                        def body():
                            with a:
                                if how == "index":
                                    a[n]
                                elif how == "oversize":
                                    a[0] = b"\xff" * (isz + 1)
                                else:
                                    a[0] = "x"
                                reached.append(1)
                        o = outcome(body)
                        obs.append((op, "ctx-raise", o[0]))
                        if o[0] != "exc" or reached:
                            viol.append(V("C19.fail", "NO_RAISE", f"step {si}: a failing operation ({how}) inside a with-block did not raise out of it "
                                                                  f"({'the body went on' if reached else 'the block swallowed it'})", step=si))
                            break
                    elif st.get("ctx"):
                        with a:  # leaving the with-block closes the array
                            pass
                    else:
                        a.close()
                    closed = True
                    obs.append((op, "ok"))
                since_reopen += 1
                if not files_ok(si):
                    break
            if not viol:
                nst = len(plan["steps"])
                if closed:
                    o = outcome(lambda: cls.open(path))
                    if o[0] != "ok":
                        viol.append(V("C19.reopen", "UNUSABLE", f"final open after close failed: {o}", step=nst))
                    else:
                        a = o[1]
                        closed = False
                        reopened = True
                if not viol:
                    full_check(nst, "final")
                if not viol:
                    a.close()
                    o = outcome(lambda: cls.open(path))
                    if o[0] != "ok":
                        viol.append(V("C19.reopen", "UNUSABLE", f"final open after close failed: {o}", step=nst))
                    else:
                        a = o[1]
                        full_check(nst, "final, after close and reopen")
                files_ok(nst)
            if b is not None and not viol:
                by_check(len(plan["steps"]))
            if b is not None and not viol:
                b.close()
                o = outcome(lambda: cls.open(bpath))
                if o[0] != "ok":
                    viol.append(V("C19.reopen", "UNUSABLE", f"the second array can no longer be opened at the end: {o} (arrays interfere)", step=len(plan["steps"])))
                else:
                    b = o[1]
                    by_check(len(plan["steps"]))
        finally:
            try:
                a.close()
            except Exception:
                pass
            try:
                if b is not None:
                    b.close()
            except Exception:
                pass
        geomcls = (n % chunk == 0, chunk > n, chunk == 1)
        res.digest = P.digest_of((obs, [v.cls() for v in viol]))
        res.shape = P.shape_of((geomcls, obs))
        res.nontrivial = mutated and reopened
        res.events = len(obs)
        res.counters = {"reopen(restart)": probes.get("reopen", 0), "failing_operation_injected": sum(1 for o in obs if o[0] in ("setbad",) or (o[0] == "sslice" and o[-1] == "exc"))}
        res.trace = [list(o) for o in obs[:40]]
        res.cover = {f"{o[0]}:{o[-1]}": 1 for o in obs}
        return res

    def _closed_op(self, a, st, isz):
        op = st["op"]
        if op == "get":
            return lambda: a[st["i"]]
        if op in ("set", "setbad"):
            return lambda: a.__setitem__(0, b"")
        if op == "del":
            return lambda: a.__delitem__(0)
        if op == "gslice":
            return lambda: a[mkslice(st["s"]) if st["s"][2] != 0 else slice(None)]
        if op == "sslice":
            return lambda: a.__setitem__(slice(None), [b""])
        if op == "dslice":
            return lambda: a.__delitem__(slice(None))
        if op == "clear":
            return lambda: a.clear()
        if op in ("iter", "iter2"):
            return lambda: list(a)
        if op == "reversed":
            return lambda: list(reversed(a))
        if op == "count":
            return lambda: a.count(b"\x00" * isz)
        if op == "contains":
            return lambda: b"x" in a
        if op == "len":
            return lambda: len(a)
        return None  # close on closed: idempotent, nothing to observe

    # ------------------------------------------------------------------ minimisation helpers
    def simplifications(self, plan):
        g = plan["geom"]
        if g.get("init") is not None:
            yield dict(plan, geom=dict(g, init=None))
        if g.get("bystander") is not None:
            yield dict(plan, geom=dict(g, bystander=None))
        for i, st in enumerate(plan["steps"]):
            if st.get("ba"):
                yield dict(plan, steps=plan["steps"][:i] + [dict(st, ba=False)] + plan["steps"][i + 1:])

    def finding_shape(self, plan, v):
        ops = [s["op"] for s in plan["steps"]]
        return "-".join(ops[:6])


PROPERTY = C19()
