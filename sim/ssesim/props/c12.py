"""C12 -- overlapping connections to one service are serialised and cannot roll state back."""
import asyncio
import json
import os
import pickle

from .. import core, fe, world
from .. import prop as P
from ..prop import V

GAPS = [0, 0.01, 0.3, 0.99, 1.0, 1.01, 2.5]
C12_SCHEMES = ["CJJ14.PiBas", "CJJ14.PiPack", "CT14.Pi"]
SID = "c12" + "ab" * 30 + "c"
OTHER_SID = "c12" + "ef" * 30 + "d"
REPLY_TYPES = ("config", "upload_edb", "result")


class C12(P.Property):
    pid = "C12"
    level = "exploration"
    mode = "frontend"
    tiers = {"quick": dict(runs=8000, budget_s=60), "thorough": dict(runs=180000, budget_s=800)}
    technique = ("deterministic simulation: seeded interleavings of up to three overlapping websocket connections on one service id "
                 "(virtual-time loop, in-memory TCP, cleanup timer schedulable), history oracle over server-side events + probe")
    level_text = ("seeded exploration of interleavings (connection opens, requests, graceful/aborted closes, gaps around the 1 s cleanup "
                  "window and up to 45 s, latency/segmentation/timer skew, zero-latency ties and busy-loop batching, gc points, read errors on "
                  "the state file; thorough: 9 MiB indexes) checked by a history oracle over server-side events plus a final probe; "
                  "evidence, not proof")
    level_note = ("trusted: the simulator (sim/ssesim/core.py), the oracle in props/c12.py; TCP is modelled as ordered reliable "
                  "streams with seeded latency; websockets 10.4 and the repo's server run unmodified")
    rule = ("plan = initial durable state {0,1,2} + scripts of 2-3 actors over {open, config, upload, search, close, abort} merged by a "
            "seeded shuffle with gaps from {0,.01,.3,.99,1,1.01,2.5}s, + scheme, latency profile, segmentation, server timer skew; "
            "non-trivial = at least two connections overlapped on the server and at least one request was sent; distinct = digest of "
            "the server-side abstract event sequence (open/send:type:ok/closed per connection label, meta-write:state)")
    real_stub = {"frontend/server/** (connector.handler, ServicesManager, Service, file_manager), schemes/**, toolkit/**": "real",
                 "websockets 10.4 client+server protocols, asyncio tasks/locks/timeouts": "real",
                 "event loop selector + clock": "simulated (virtual time)", "TCP": "simulated in memory (ordered reliable streams, seeded latency/segmentation, RST)",
                 "disk": "real files in scratch HOME; every mutation call observed at the seam",
                 "wall clock + file time stamps": "simulated (time.time and os.stat follow the virtual clock; clock steps, 1 s / 2 s stamp granularity in part of the runs)",
                 "clients": "harness actors speaking the real wire format through the real websockets client"}
    assumptions = ["connections are TCP streams: no loss/duplication/reordering inside a connection",
                   "an unacknowledged request in flight when its connection ends may or may not have been applied"]
    probe_names = ["two_waiters_one_predecessor", "newcomer_during_cleanup", "waiter_closes_before_served", "predecessor_aborted",
                   "request_queued_while_waiting", "overlap_init_state_0", "overlap_init_state_1", "overlap_init_state_2",
                   "three_overlapping", "overlap_longer_than_20s", "state_file_read_error", "other_service_connection", "pipelined_pair", "two_listeners", "disk_full_error"]

    def setup(self):
        world.setup_frontend()
        self.worlds = {}

    def world_for(self, scheme, big=False):
        key = (scheme, big)
        w = self.worlds.get(key)
        if w is None:
            world.seed_randomness(("c12-world", scheme, big))
            L, cfg0 = fe.default_config(scheme)
            S = L.SSEScheme(dict(cfg0))
            idsz = fe.id_size(cfg0)
            acts = {}
            for n in "PABC":
                K = S.KeyGen()
                db = {b"w": [(n.encode() * idsz)[:idsz], (n.lower().encode() * idsz)[:idsz]], b"x": [(b"x" + n.encode() * idsz)[:idsz]]}
                if big:  # an index of about 9 MiB (code paths that only large payloads take)
                    db[b"w"] = [n.encode() + i.to_bytes(idsz - 1, "big") for i in range(1, 125001)]
                acts[n] = dict(db=db, edb=S.EDBSetup(K, db).serialize(), tok=S.TokenGen(K, b"w").serialize(), cfg=dict(cfg0, salt="salt-" + n))
            w = self.worlds[key] = dict(L=L, cfgobj=L.SSEConfig(dict(cfg0)), acts=acts)
        return w

    # ------------------------------------------------------------------ generation
    def gen(self, seed, tier):
        rng = P.stream(seed, "workload")
        nact = rng.choice([2, 3, 3])
        enabled = [k for k in ("config", "upload", "search") if rng.random() < 0.8] or ["config", "upload"]
        scripts = {}
        for n in "ABC"[:nact]:
            sc = ["open"]
            for _ in range(rng.randint(0, 3)):
                x = rng.choice(enabled)
                if x in ("config", "upload") and rng.random() < 0.12:
                    x += "2"  # two requests of that kind back to back, the second (other content) not waiting for the first reply
                sc.append(x)
            sc.append("abort" if rng.random() < 0.25 else "close")
            scripts[n] = sc
        gaps = rng.choice([GAPS, GAPS, [0, 0.01, 0.3], [0.99, 1.0, 1.01, 2.5], GAPS + [5, 12, 25, 45]])  # the last: long overlaps (keep-alive, timeouts)
        steps = []
        idx = {n: 0 for n in scripts}
        while any(idx[n] < len(scripts[n]) for n in scripts):
            n = rng.choice([n for n in scripts if idx[n] < len(scripts[n])])
            steps.append({"actor": n, "do": scripts[n][idx[n]], "gap": rng.choice(gaps)})
            idx[n] += 1
        d_first = False
        if rng.random() < 0.25:
            # a connection for a *different* service id comes and goes meanwhile (its cleanup holds the manager's shared lock for a second)
            if rng.random() < 0.5:
                # it has just left when the first connections of the service under test arrive
                steps[0:0] = [{"actor": "D", "do": "open", "gap": 0.01}, {"actor": "D", "do": "close", "gap": rng.choice([0.01, 0.1, 0.3, 0.6])}]
                d_first = True
            else:
                pos = sorted(rng.sample(range(len(steps) + 1), 2))
                steps.insert(pos[0], {"actor": "D", "do": "open", "gap": rng.choice([0, 0.01, 0.3])})
                steps.insert(pos[1] + 1, {"actor": "D", "do": "close", "gap": rng.choice([0, 0.01, 0.3, 0.99])})
        knobs = dict(scheme=rng.choice(C12_SCHEMES), init_state=(0 if d_first and rng.random() < 0.7 else rng.choice([0, 0, 1, 1, 2])),
                     net=rng.choice([dict(lo=0.001, hi=0.05), dict(lo=0.001, hi=0.05, seg=3), dict(lo=0.0005, hi=0.004),
                                     dict(lo=0.01, hi=0.3, tail=0.1, seg=2),
                                     dict(lo=0.0, hi=0.0), dict(lo=0.0, hi=0.0, quantum=0.001), dict(lo=0.0005, hi=0.004, quantum=0.002)]),  # no latency / busy loop -- events tie, only the loop's FIFO order decides
                     skew=rng.choice([1.0, 1.0, 0.5, 2.0]), bufsize=rng.choice([8192, 8192, 16]), gc_every=rng.choice([0, 0, 0, 1, 2]))
        if rng.random() < 0.3:
            knobs["mtime_gran"] = rng.choice([1, 2])  # a file system with coarse time stamps: writes within one tick carry the same stamp
        if rng.random() < 0.15 and steps:
            # the wall clock is stepped before that step (NTP correction, VM resume): time.time() and new file stamps jump, loop time does not
            knobs["clock_steps"] = {str(rng.randrange(len(steps))): rng.choice([-3600.0, -5.0, -0.5, -3 * 86400.0, 3600.0, 9 * 86400.0])}
        if "read_fault" not in knobs and rng.random() < 0.08:
            # injected system-call failure: from this step on, one of the server's next writes / file creations fails with ENOSPC (disk full,
            # once; optionally after part of the data was written).  The request that is hit may fail; nothing acknowledged may be lost
            knobs["write_fault"] = {"step": rng.randrange(len(steps)), "skip": rng.choice([0, 0, 1, 2, 3, 5]), "torn": rng.random() < 0.5}
        if rng.random() < 0.12:
            # the server process serves through two listeners (two ports); connections of one service may arrive through either
            knobs["two_listeners"] = True
            knobs["ports"] = {n: rng.choice([8001, 8002]) for n in "ABCD"}
        if rng.random() < 0.2:
            # the URL path is the client's choice (the server URI is a client setting); it names no other service
            knobs["paths"] = {n: rng.choice(["", "/", "/staging", "/v2/sse"]) for n in "ABC"}
        if rng.random() < 0.1:
            # injected system-call failure: from this step on, the server's next read of the state file fails once (EMFILE)
            knobs["read_fault"] = {"step": rng.randrange(len(steps)), "skip": rng.choice([0, 1, 1, 2, 3])}
        if tier == "thorough" and rng.random() < float(os.environ.get("VERIF_C12_BIG_RATE", "0.0015")):
            knobs.update(scheme="CJJ14.PiBas", big=True)
        return {"property": "C12", "seed": seed, "knobs": knobs, "steps": steps}

    # ------------------------------------------------------------------ execution
    def execute(self, plan):
        res = P.Result()
        knobs = plan["knobs"]
        w = self.world_for(knobs["scheme"], bool(knobs.get("big")))
        run = fe.Run(plan["seed"], knobs)
        meta_writes = []  # (event index, state, site, conn)

        def on_disk(rec):
            if rec["role"] == "server" and rec["path"] == SID + "/service_meta" and rec["kind"] in ("write", "replace", "rename") and rec["applied"]:
                try:
                    with open(run.sse_path(rec["path"]), "rb") as f:
                        st = pickle.load(f).get("state")
                except Exception:
                    return
                meta_writes.append((len(run.events), st, rec["site"], rec["conn"]))
                run.ev("meta_write", st, rec["site"])
        run.seam.on_event = on_disk
        out = {}
        try:
            with world.Watchdog(900 if knobs.get("big") else 180):
                try:
                    run.sim.run(self._scenario(run, plan, w, out))
                except core.SimLimit as e:
                    res.violations.append(V("C12.2", "HANG", f"run did not quiesce: {e}"))
                except core.SimDeadlock as e:
                    res.violations.append(V("C12.2", "HANG", f"deadlock: {e}"))
            self._oracle(run, plan, w, out, meta_writes, res)
            res.digest = run.sim.digest()
            if run.sim.counters.get("read_error"):
                res.probes["state_file_read_error"] = 1
            res.sim_seconds = run.sim.loop._vt
            res.events = run.sim.loop.steps
            res.counters = dict(run.sim.counters)
        finally:
            run.finish()
        return res

    async def _scenario(self, run, plan, w, out):
        knobs = plan["knobs"]
        acts = w["acts"]
        run.boot_server()
        await asyncio.sleep(0.01)
        init_state = knobs["init_state"]
        out["acked_cfg"] = out["acked_edb"] = None
        if init_state >= 1:
            p = fe.RawActor(run, "P", SID)
            await p.open()
            await p.wait_change(lambda: p.init is not None, 30)
            await p.send("config", pickle.dumps(acts["P"]["cfg"]))
            await p.wait_change(lambda: "config" in p.acks, 30)
            out["acked_cfg"] = "P"
            if init_state == 2:
                await p.send("upload_edb", acts["P"]["edb"])
                await p.wait_change(lambda: "upload_edb" in p.acks, 30)
                out["acked_edb"] = "P"
            await p.close()
            await asyncio.sleep(3)
            if len(p.acks) != init_state:
                out["prep_failed"] = list(p.acks)
                return
        out["base"] = len(run.events)
        actors = out["actors"] = {}
        sent = out["sent"] = []  # (event index, actor, kind)
        for si, st in enumerate(plan["steps"]):
            n, do = st["actor"], st["do"]
            a = actors.get(n)
            run.maybe_gc(si)
            rf = knobs.get("read_fault")
            if rf is not None and rf["step"] == si:
                run.seam.fail_read = ("server", "service_meta", rf.get("skip", 0))
            wf = knobs.get("write_fault")
            if wf is not None and wf["step"] == si:
                run.seam.fail_write = ["server", wf.get("skip", 0), wf.get("torn", False)]
            try:
                if do == "open":
                    if a is None:
                        a = actors[n] = fe.RawActor(run, n, SID if n != "D" else OTHER_SID)
                        run.ev("c_do", n, "open")
                        await a.open(path=(knobs.get("paths") or {}).get(n, ""), port=(knobs.get("ports") or {}).get(n, 8001))
                elif a is None or not a.opened:
                    pass
                elif do == "config":
                    sent.append((run.ev("c_do", n, do), n, do))
                    await a.send("config", pickle.dumps(acts[n]["cfg"]))
                elif do == "upload":
                    sent.append((run.ev("c_do", n, do), n, do))
                    await a.send("upload_edb", acts[n]["edb"])
                elif do in ("upload2", "config2"):
                    # pipelined pair: both are in the connection's receive queue before the first is answered; at most the first may be
                    # acknowledged (the second asks to replace what the first stored)
                    other = "ABC"[("ABC".index(n) + 1) % 3] if n in "ABC" else "A"
                    for who in (n, other):
                        sent.append((run.ev("c_do", n, do[:-1]), n, do[:-1]))
                        if do == "upload2":
                            await a.send("upload_edb", acts[who]["edb"])
                        else:
                            await a.send("config", pickle.dumps(acts[who]["cfg"]))
                    out["probes_extra"] = {"pipelined_pair": 1}
                elif do == "search":
                    sent.append((run.ev("c_do", n, do), n, do))
                    await a.send("token", acts[n]["tok"], token_digest=b"d-" + n.encode())
                elif do in ("close", "abort"):
                    run.ev("c_do", n, do)
                    await a.close(abort=(do == "abort"))
            except Exception as e:
                run.ev("c_fail", n, do, type(e).__name__)
            await asyncio.sleep(st.get("gap", 0))
        await asyncio.sleep(8)
        for a in actors.values():
            await a.close()
        run.seam.fail_read = None  # faults stop here; what follows is the look at the outcome
        run.seam.fail_write = None
        await asyncio.sleep(4)
        if knobs.get("gc_every"):
            world.gc_point()  # everything is closed: whatever finalizers exist run now, before the probe looks
        await asyncio.sleep(4)
        out["end"] = len(run.events)
        # ---- probe
        pr = out["probe"] = fe.RawActor(run, "probe", SID)
        try:
            await pr.open()
            await pr.wait_change(lambda: pr.init is not None, 30)
        except Exception as e:
            out["probe_error"] = repr(e)
        if pr.init is None:
            return
        state = pr.init.get("state")
        out["probe_results"] = {}
        if state == 2:
            uploaders = [x for x in (["P"] if knobs["init_state"] >= 1 else []) + sorted(actors) if x != "D"]
            for n in uploaders:
                before = len(pr.results)
                await pr.send("token", acts[n]["tok"], token_digest=b"probe-" + n.encode())
                ok = await pr.wait_change(lambda: len(pr.results) > before, 20)
                if not ok:
                    out["probe_results"][n] = "no-result"
                    break
                try:
                    out["probe_results"][n] = list(fe.result_list(w["L"], w["cfgobj"], pr.results[-1]))
                except Exception as e:
                    out["probe_results"][n] = "undecodable:" + type(e).__name__
        await pr.close()
        await asyncio.sleep(3)

    def _oracle(self, run, plan, w, out, meta_writes, res):
        viol = res.violations
        probes = res.probes
        knobs = plan["knobs"]
        if "prep_failed" in out or "base" not in out:
            if not viol:
                viol.append(V("C12.2", "UNUSABLE", f"solo preparation of initial state {knobs['init_state']} was not acknowledged: {out.get('prep_failed')}"))
            res.shape = P.shape_of(("prep",))
            return
        ev = run.events
        base, end = out["base"], out.get("end", len(ev))
        opens, closes = {}, {}
        for i in range(base, len(ev)):
            e = ev[i]
            if e[0] == "s_open":
                opens[e[1]] = i
            elif e[0] == "s_closed":
                closes[e[1]] = i
        # a connection takes part in the ordering once the server has taken it on (sent its init echo); one that died in the
        # server's constructor (e.g. on an injected read error) was never served nor made to wait
        echoed = {e[1] for e in ev[base:] if e[0] == "s_send" and e[2] == "init"}
        other_cids = {getattr(getattr(act.ws, "transport", None), "cid", None) for nme, act in out.get("actors", {}).items()
                      if nme == "D" and act.ws is not None}
        if other_cids - {None}:
            probes["other_service_connection"] = 1
        opens = {c: i for c, i in opens.items() if c in echoed and c not in other_cids}
        conns = sorted(opens, key=opens.get)
        label = {c: "c%d" % k for k, c in enumerate(conns)}
        INF = 10 ** 9
        # clause 1: serialisation
        order_bad = None
        first_reply = {}
        ctrl_at = {}
        for i in range(base, end):
            e = ev[i]
            if e[0] != "s_send":
                continue
            j = e[1]
            if j not in opens:
                continue
            if e[2] == "control":
                ctrl_at.setdefault(j, i)
            if e[2] in REPLY_TYPES:
                first_reply.setdefault(j, i)
                for pi in conns:
                    if opens[pi] < opens[j] and closes.get(pi, INF) > i:
                        order_bad = order_bad or (f"reply {e[2]} (ok={e[3]}) sent on {label[j]} at event {i} while earlier-opened {label[pi]} "
                                                  f"(opened at {opens[pi]}) was still open (closed at {closes.get(pi)})")
                        break
        if order_bad:
            viol.append(V("C12.1", "ORDER", order_bad))
        overlapped = 0
        echo_at = {}
        for i in range(base, len(ev)):
            if ev[i][0] == "s_send" and ev[i][2] == "init":
                echo_at.setdefault(ev[i][1], i)
        for j in conns:
            # "still open" is judged at the moment the server takes j on (its init echo leaves): a predecessor whose handler died
            # in the same instant (e.g. on an injected read error under the lock) is not something j has to wait for
            preds = [pi for pi in conns if opens[pi] < opens[j] and closes.get(pi, INF) > echo_at.get(j, opens[j])]
            if preds:
                overlapped += 1
                if len(preds) >= 2:
                    probes["three_overlapping"] = 1
                if j in first_reply and not (j in ctrl_at and ctrl_at[j] < first_reply[j]):
                    viol.append(V("C12.1", "NOT_TOLD", f"{label[j]} had open predecessor(s) {[label[p] for p in preds]} when it opened but was sent "
                                                      f"no control message before its first reply"))
                if any(closes.get(j, INF) < closes.get(pi, INF) for pi in preds):
                    probes["waiter_closes_before_served"] = 1
        # probes about shapes
        for pi in conns:
            waiters = [j for j in conns if opens[pi] < opens[j] < closes.get(pi, INF)]
            if len(waiters) >= 2:
                probes["two_waiters_one_predecessor"] = 1
            if pi in closes:
                tclose = ev[closes[pi]][-1]
                for j in conns:
                    if opens[j] > closes[pi] and ev[opens[j]][-1] - tclose < 1.0 * knobs.get("skew", 1.0):
                        probes["newcomer_during_cleanup"] = 1
        actor_conn = {}
        for n, act in out.get("actors", {}).items():
            tr = getattr(act.ws, "transport", None) if act.ws is not None else None
            if tr is not None and getattr(tr, "cid", None) in opens:
                actor_conn[n] = tr.cid
        for (ei, n, kind) in out["sent"]:
            j = actor_conn.get(n)
            if j is not None and any(opens[pi] < opens[j] and closes.get(pi, INF) > ei for pi in conns):
                probes["request_queued_while_waiting"] = 1
        for st in plan["steps"]:
            if st["do"] == "abort":
                j = actor_conn.get(st["actor"])
                if j is not None and any(opens[j] < opens[x] < closes.get(j, INF) for x in conns):
                    probes["predecessor_aborted"] = 1
        if overlapped:
            probes[f"overlap_init_state_{knobs['init_state']}"] = 1
        for j in conns:
            for pi in conns:
                if opens[pi] < opens[j] < closes.get(pi, INF) and pi in closes and ev[closes[pi]][-1] - ev[opens[j]][-1] > 20:
                    probes["overlap_longer_than_20s"] = 1
        # clause 2: no rollback
        actors = out.get("actors", {})
        cfg_acks = ([out["acked_cfg"]] if out["acked_cfg"] else []) + [n for n, a in sorted(actors.items()) for _ in range(a.acks.count("config"))]
        edb_acks = ([out["acked_edb"]] if out["acked_edb"] else []) + [n for n, a in sorted(actors.items()) for _ in range(a.acks.count("upload_edb"))]
        probes.update(out.get("probes_extra") or {})
        if run.sim.counters.get("write_error"):
            probes["disk_full_error"] = 1
        if knobs.get("two_listeners") and len(set((knobs.get("ports") or {}).get(n, 8001) for n in actors if n != "D")) > 1:
            probes["two_listeners"] = 1
        want = 2 if edb_acks else 1 if cfg_acks else 0
        prev = None
        for (i, st, site, conn) in meta_writes:
            if prev is not None and st is not None and st < prev:
                viol.append(V("C12.2", "ROLLBACK", f"service_meta rewritten with state {st} after state {prev} (writer {site}, connection {label.get(conn, conn)})", site=site))
                break
            if st is not None:
                prev = st
        pr = out.get("probe")
        if not any(v["kind"] == "HANG" for v in viol):
            if pr is None or pr.init is None:
                viol.append(V("C12.2", "UNUSABLE", f"after all connections ended a fresh connection got no init echo within 30 s ({out.get('probe_error', 'closed' if pr and pr.closed_seen else 'silent')})"))
            else:
                st = pr.init.get("state")
                if st < want:
                    viol.append(V("C12.2", "ROLLBACK", f"probe is told state {st} although state {want} was acknowledged (config acks {cfg_acks}, index acks {edb_acks})", site="probe"))
                # clause 3
                if len(cfg_acks) > 1:
                    viol.append(V("C12.3", "LOST_WRITE", f"configuration acknowledged more than once: {cfg_acks}", site="ack"))
                if len(edb_acks) > 1:
                    viol.append(V("C12.3", "LOST_WRITE", f"index acknowledged more than once: {edb_acks}", site="ack"))
                if st == 2:
                    prs = out.get("probe_results", {})
                    hits = [n for n, r in prs.items() if isinstance(r, list) and r == w["acts"][n]["db"][b"w"]]
                    junk = {n: r for n, r in prs.items() if not (isinstance(r, list) and (r == [] or r == w["acts"][n]["db"][b"w"]))}
                    if junk:
                        viol.append(V("C12.3", "WRONG_RESULT", f"probe searches returned {junk}", site="probe-search"))
                    elif edb_acks and hits != [edb_acks[0]]:
                        viol.append(V("C12.3", "LOST_WRITE", f"index acknowledged to {edb_acks[0]} but the stored index answers for {hits}", site="probe-search"))
                    elif len(hits) != 1:
                        viol.append(V("C12.3", "WRONG_RESULT", f"state is ready but the stored index answers for {hits} (exactly one uploader expected)", site="probe-search"))
                    else:
                        self._actor_results_ok(w, actors, hits[0], viol)
                elif st is not None and st < 2:
                    self._actor_results_ok(w, actors, None, viol)
                if cfg_acks:
                    try:
                        with open(run.sse_path(SID, "config.json")) as f:
                            disk = json.load(f)
                    except Exception as e:
                        disk = repr(e)
                    if disk != w["acts"][cfg_acks[0]]["cfg"]:
                        viol.append(V("C12.3", "LOST_WRITE", f"config.json on disk is not the configuration acknowledged to {cfg_acks[0]}", site="config.json"))
        # shape / coverage
        abstract = []
        for i in range(base, len(ev)):
            e = ev[i]
            if e[0] in ("s_open", "s_closed"):
                abstract.append((e[0], label.get(e[1])))
            elif e[0] == "s_send":
                abstract.append(("send", label.get(e[1]), e[2], e[3]))
            elif e[0] == "meta_write":
                abstract.append(("meta", e[1], e[2]))
        res.shape = P.shape_of((knobs["init_state"], abstract))
        res.nontrivial = overlapped > 0 and bool(out["sent"])
        res.trace = dict(init_state=knobs["init_state"], server_events=[list(map(str, a)) for a in abstract[:60]], probe_state=(pr.init or {}).get("state") if pr else None,
                         config_acks=cfg_acks, index_acks=edb_acks)
        nopen = sum(1 for a in abstract if a[0] == "s_open")
        res.cover = {f"init{knobs['init_state']}:conns{min(nopen, 4)}:overlap{min(overlapped, 2)}": 1}

    @staticmethod
    def _actor_results_ok(w, actors, owner, viol):
        """whatever a connection was answered comes from the one index the service has (write-once): an actor searches with its own
        token, so it gets its own list if the stored index is its own and nothing otherwise -- never an answer from an index that was
        refused, and no answer at all while there is no index"""
        for n_, a_ in sorted(actors.items()):
            if n_ == "D":
                continue
            for raw in a_.results:
                try:
                    got_ = list(fe.result_list(w["L"], w["cfgobj"], raw))
                except Exception as e_:
                    got_ = "undecodable:" + type(e_).__name__
                mine = w["acts"][n_]["db"][b"w"]
                okay = owner is not None and ((got_ == [] and owner != n_) or (got_ == mine and owner == n_))
                if not okay:
                    viol.append(V("C12.3", "WRONG_RESULT", f"{n_} was answered {got_ if isinstance(got_, str) else str(len(got_)) + ' identifiers'} with its own token; the "
                                                            f"index the service holds is {owner + chr(39) + 's' if owner else 'none'}", site="actor-search"))
                    return False
        return True

    def enumerate(self, tier):
        """overlap sweep: A works through the protocol from every initial state while B (and optionally C) open at every position, wait, and
        then act; each history under a plain, a coarse-time-stamp and a stepped-clock environment"""
        plans = []
        envs = [{}, {"mtime_gran": 2}, {"clock": -5.0}, {"mtime_gran": 1, "clock": 3600.0}]
        for init in (0, 1, 2):
            a_work = {0: ["config", "upload"], 1: ["upload"], 2: ["search"]}[init]
            a_steps = ["open"] + a_work + ["close"]
            for pos_b in range(1, len(a_steps)):
                for xb in ("config", "upload", "search", None):
                    thirds = [None] + [(pc, yc) for pc in range(pos_b, len(a_steps)) for yc in ("upload", "search")]
                    for third in thirds:
                        for env in envs:
                            for gap in ((0.01,) if third else (0.01, 0.3)):
                                steps = []
                                for i, d in enumerate(a_steps):
                                    if i == pos_b:
                                        steps.append({"actor": "B", "do": "open", "gap": gap})
                                    if third and i == third[0]:
                                        steps.append({"actor": "C", "do": "open", "gap": gap})
                                    steps.append({"actor": "A", "do": d, "gap": gap})
                                if xb:
                                    steps.append({"actor": "B", "do": xb, "gap": gap})
                                steps.append({"actor": "B", "do": "close", "gap": gap})
                                if third:
                                    steps.append({"actor": "C", "do": third[1], "gap": gap})
                                    steps.append({"actor": "C", "do": "close", "gap": gap})
                                knobs = dict(scheme="CJJ14.PiBas", init_state=init, net=dict(lo=0.001, hi=0.02), skew=1.0, bufsize=8192, gc_every=0)
                                if env.get("mtime_gran"):
                                    knobs["mtime_gran"] = env["mtime_gran"]
                                if env.get("clock"):
                                    knobs["clock_steps"] = {str(pos_b): env["clock"]}
                                plans.append({"property": "C12", "seed": 5000 + len(plans), "knobs": knobs, "steps": steps, "enumerated": True})
        return plans

    # ------------------------------------------------------------------ minimisation
    def simplifications(self, plan):
        k = plan["knobs"]
        for key, val in (("skew", 1.0), ("bufsize", 8192), ("scheme", "CJJ14.PiBas"), ("net", dict(lo=0.01, hi=0.01)), ("gc_every", 0), ("big", False), ("read_fault", None), ("paths", None), ("mtime_gran", None), ("clock_steps", None), ("two_listeners", None), ("ports", None), ("write_fault", None)):
            if k.get(key) != val:
                yield dict(plan, knobs=dict(k, **{key: val}))
        if k["init_state"] > 0:
            yield dict(plan, knobs=dict(k, init_state=k["init_state"] - 1))
        steps = plan["steps"]
        for i, st in enumerate(steps):
            if st["do"] == "abort":
                yield dict(plan, steps=steps[:i] + [dict(st, do="close")] + steps[i + 1:])
            if st.get("gap") not in (0, 0.5, 1.5):
                for g in (0, 0.5, 1.5):
                    yield dict(plan, steps=steps[:i] + [dict(st, gap=g)] + steps[i + 1:])

    def finding_shape(self, plan, v):
        return f"init{plan['knobs']['init_state']}:" + "-".join(f"{s['actor']}{s['do'][0]}" for s in plan["steps"][:10])


PROPERTY = C12()
