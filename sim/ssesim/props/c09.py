"""C09 -- end to end through the real client and server, across client re-creation and server restart."""
import asyncio
import os
import copy
import itertools
import pickle

from .. import core, fe, world
from .. import prop as P
from ..prop import V, hx, unhx

WORKFLOW = ["create", "gen_key", "encrypt", "upload_config", "upload_index"]
GRID = {
    "CJJ14.PiBas": [{}, {"param_lambda": 16}, {"prf_f_output_length": 16}, {"param_lambda": 16, "prf_f_output_length": 16}, {"param_lambda": 24, "prf_f_output_length": 24}],
    "CJJ14.PiPack": [{}, {"param_B": 1}, {"param_B": 2}, {"param_B": 3}, {"param_B": 8}, {"param_lambda": 16, "prf_f_output_length": 16}],
    "CJJ14.PiPtr": [{}, {"param_B": 1, "param_b": 1}, {"param_B": 2, "param_b": 2}, {"param_B": 4, "param_b": 2}, {"param_B": 2, "param_b": 4}, {"param_lambda": 16, "prf_f_output_length": 16}],
    "CJJ14.Pi2Lev": [{}, {"param_B": 2, "param_b": 2, "param_B_prime": 2, "param_b_prime": 2}, {"param_B": 4, "param_b": 2, "param_B_prime": 4, "param_b_prime": 2},
                     {"param_B": 4, "param_b": 4, "param_B_prime": 4, "param_b_prime": 4}, {"param_lambda": 16, "prf_f_output_length": 16}],
    "CT14.Pi": [{}, {"param_identifier_size": 8}],
    "ANSS16.Scheme3": [{}, {"param_identifier_size": 8}],
    "DP17.Pi": [{}, {"param_L": 2}, {"param_L": 4}, {"param_actual_storage_level_ratio": 0.5}, {"param_actual_storage_level_ratio": 1.0}, {"param_lambda": 16}],
    "CGKO06.SSE1": [{}, {"param_s": 128, "param_dictionary_size": 64}],
    "CGKO06.SSE2": [{}, {"param_max_file_size": 2}, {"param_max_file_size": 16}],
}
LENS = [1, 1, 1, 2, 2, 3, 4, 5, 7, 8, 9, 15, 16, 17, 31, 32, 33, 40]


def expand_db(dbspec):
    """plan database -> {keyword bytes: [identifier bytes]} (through the repo's own JSON-database converter)"""
    from toolkit.database_utils import convert_database_keyword_to_bytes
    if "__huge__" in dbspec:
        n = dbspec["__huge__"]
        return {b"huge-keyword": [i.to_bytes(8, "big") for i in range(1, n + 1)], b"small": [b"\xee" * 8, b"\xef" * 8]}
    return convert_database_keyword_to_bytes(dbspec)


def same_result(got, want):
    if isinstance(got, (set, frozenset)):
        return set(got) == set(want) and len(got) == len(want)
    return list(got) == list(want)


class C09(P.Property):
    pid = "C09"
    level = "exploration"
    mode = "frontend"
    tiers = {"quick": dict(runs=2400, budget_s=70), "thorough": dict(runs=80000, budget_s=800)}
    technique = ("deterministic simulation of the full deployment (real client, real server, websocket, disk) with client re-creation and "
                 "server kill/restart as generated events; oracle = the plaintext database")
    level_text = ("seeded exploration over scheme x configuration grid x database shape x search sequence x placements of client "
                  "re-creation / server restart (in-process, or for real in a second interpreter with another hash salt) x deployment "
                  "layout (shared HOME / separate hosts) x network profile x one optional fault (reply stall, server read error, blocker "
                  "connection, server killed mid-request) with a narrowly relaxed oracle for the operation it hits; plus a complete "
                  "sweep of all 2^7 re-creation placements x 3 restart placements for one scheme and database")
    level_note = ("trusted: the simulator, the driver and oracle in props/c09.py; the oracle is DB.get(w, []) and not the scheme; under a "
                  "non-default grid configuration a loud refusal while building config/key/index ends the run without a verdict")
    rule = ("plan = scheme (all nine) + configuration from a small grid + JSON database (1-8 keywords incl. whitespace / NUL / multi-byte / "
            "32-byte keywords, list lengths biased to 1, 2^k, 2^k+-1, occasionally 100-1500; thorough: rarely 180 000) + 3-12 searches over "
            "present / absent / near-miss keywords + which step boundaries re-create the client object, which restart the server + decoy "
            "service + idle periods + latency/segmentation/skew + at most one fault; non-trivial = at least one re-creation or restart "
            "and at least one search answered; distinct = digest of (scheme, cfg index, placement vector, result classes)")
    real_stub = dict(deployment="everything under frontend/, schemes/, toolkit/ real; websockets real; loop/clock/TCP/process lifetime simulated; "
                                "disk real with mutation seam; wall clock (time.time) and file time stamps (os.stat) simulated: follow the virtual clock, steppable, per-run stamp granularity; 1 of 16 workers under python -O")
    assumptions = ["a server restart implies that the client object is re-created (a client holding a dead socket is not the property's subject)",
                   "an operation hit by an injected fault (stall >= 60 s, failing read, blocker, kill mid-request), or issued on the client object "
                   "that sat through one, may fail; it may never deliver another keyword's result, and a new client object must then succeed",
                   "PYTHONHASHSEED is pinned per interpreter (DP17 pickles a set); the second interpreter of a real restart gets another one"]
    probe_names = ["scheme_" + s for s in fe.SCHEMES] + ["recreate_before_" + w for w in WORKFLOW[1:]] + [
        "recreate_before_first_search", "recreate_between_searches", "kept_object_whole_workflow", "server_restart_before_first_search",
        "server_restart_between_searches", "recreate_inside_cleanup_window", "absent_keyword", "near_miss_keyword", "nondefault_config",
        "stall_over_60s", "decoy_service", "decoy_other_config", "idle_connection", "op_failed_under_fault", "server_read_error", "client_object_kept_after_fault", "blocked_by_other_connection", "real_restart_new_interpreter", "separate_hosts", "server_killed_mid_request", "request_while_server_down", "client_built_outside_loop", "server_restart_inside_workflow"]
    thorough_probe_names = ["huge_payload"]

    def setup(self):
        world.setup_frontend()

    # ------------------------------------------------------------------ generation
    def gen_db(self, rng, scheme, z):
        small = scheme in ("CGKO06.SSE1", "CGKO06.SSE2")
        nkw = rng.randint(1, 4 if small else 8)
        db = {}
        c = 0
        big = (not small) and rng.random() < 0.05  # occasionally long lists: indexes and results beyond one 64 KiB frame / many blocks
        mid = (not small) and scheme in ("CJJ14.PiBas", "CJJ14.PiPack", "CJJ14.PiPtr") and rng.random() < 0.012  # results of 64 KiB - 150 KiB
        for i in range(nkw):
            ln = rng.choice(LENS[:9] if small else LENS)
            if big and i < 2:
                ln = rng.choice([100, 255, 256, 257, 300, 1024, 1025, 1500])
            if mid and i == 0:
                ln = rng.choice([6500, 8192, 12000])
            kw = "".join(rng.choice(["a", "b", "c", "k", "é", "z", "0", "-", "W", " ", "\x00", "ÿ", "\u20ac"]) for _ in range(rng.randint(1, 6))) + str(i)
            if kw[0] == "\x00":
                kw = "n" + kw  # a keyword may contain NUL bytes but not start with one
            if rng.random() < 0.04:
                kw = (kw + "L" * 40)[:32 - len(str(i))] + str(i)  # at the 32-byte keyword limit of SSE-1 / SSE-2 (ASCII part)
                kw = kw.encode("utf-8")[:32].decode("utf-8", "ignore")
            kwmax = 32 if scheme in ("CGKO06.SSE1", "CGKO06.SSE2") else 160  # only SSE-1 / SSE-2 bound the keyword length (32 bytes)
            if kwmax > 32 and rng.random() < 0.06:
                kw = kw + rng.choice(["-long", "é", "€x"]) * rng.choice([7, 12, 30])  # 33 bytes and (much) more
            if rng.random() < 0.15:
                kw = rng.choice([" ", "\t"]) + kw  # leading / trailing whitespace is part of a keyword
            if rng.random() < 0.15:
                kw = kw + rng.choice([" ", "\n"])
            while len(kw.encode("utf-8")) > kwmax:  # the keyword-length limit of SSE-1 / SSE-2 bounds the valid domain
                kw = kw[:len(kw) // 2] + kw[len(kw) // 2 + 1:]
            while kw in db or not kw:
                kw = (kw + "q")[-31:]
            ids = []
            for _ in range(ln):
                c += 1
                ids.append((c.to_bytes(z, "big")).hex().upper() if rng.random() < 0.5 else (c.to_bytes(z, "big")).hex())
            db[kw] = ids
        return db

    def gen(self, seed, tier):
        rng = P.stream(seed, "workload")
        scheme = rng.choice(fe.SCHEMES)
        ci = rng.randrange(len(GRID[scheme])) if rng.random() < 0.5 else 0
        L, cfg = fe.default_config(scheme)
        cfg.update(GRID[scheme][ci])
        z = fe.id_size(cfg)
        db = self.gen_db(rng, scheme, z)
        kws = list(db)
        steps = []
        after_upload_restart_allowed = True
        for i in range(rng.randint(3, 12)):
            r = rng.random()
            base = rng.choice(kws)
            if r < 0.5:
                w, cls = base, "present"
            elif r < 0.65:
                w, cls = "absent" + str(rng.randint(0, 99)), "absent"
            elif r < 0.70 and base.strip() and base.strip() != base:
                w, cls = base.strip(), "near"
            elif r < 0.75:
                w, cls = base[:-1] or "q", "near"
            elif r < 0.85:
                w, cls = base + rng.choice("ax0"), "near"
            elif r < 0.93:
                w, cls = base[1:] or "q", "near"
            else:
                j = rng.randrange(len(base))
                w, cls = base[:j] + ("x" if base[j] != "x" else "y") + base[j + 1:], "near"
            while len(w.encode("utf-8")) > (32 if scheme in ("CGKO06.SSE1", "CGKO06.SSE2") else 200):  # searched keywords stay inside the schemes' keyword-length limit as well
                w = w[1:]
                cls = "near"
            if not w or w[0] == "\x00":
                w = "q" + w[1:]
            st = {"w": w, "recreate": rng.random() < 0.4, "gap": rng.choice([0, 0, 0.5, 1.5]), "restart": rng.random() < 0.12,
                  "idle": rng.choice([0] * 44 + [25, 25, 70, 70, 1000, 4000])}  # idle time before the search on whatever connection is open
            steps.append(st)
        recreate = [rng.random() < 0.5 for _ in range(5)]  # before gen_key, encrypt, upload_config, upload_index, first search
        if rng.random() < 0.15:
            recreate = [False] * 5
        knobs = dict(scheme=scheme, cfg_index=ci, db=db, recreate=recreate, gaps=[rng.choice([0, 0, 0.5, 1.5]) for _ in range(5)],
                     restart_after_upload=rng.random() < 0.25,
                     net=rng.choice([dict(lo=0.001, hi=0.05), dict(lo=0.001, hi=0.05, seg=3), dict(lo=0.0005, hi=0.004), dict(lo=0.01, hi=0.3, tail=0.1, seg=2)]),
                     skew=rng.choice([1.0, 1.0, 0.5, 2.0]), bufsize=rng.choice([8192, 8192, 16]), stall=None,
                     sse2_spare=rng.choice([0, 0, 3]), decoy=rng.random() < 0.3)
        knobs["read_fault"] = None
        knobs["keep_after_fault"] = rng.random() < 0.5
        if rng.random() < 0.08:
            knobs["stall"] = {"search": rng.randrange(len(steps)), "secs": rng.choice([0.5, 5, 70])}
        elif rng.random() < 0.06:
            knobs["read_fault"] = {"search": rng.randrange(len(steps))}
        knobs["real_restart"] = rng.random() < 0.03
        knobs["separate_hosts"] = rng.random() < 0.3  # deployment: server and client on different machines (neither sees the other's files)
        if tier == "thorough" and rng.random() < float(os.environ.get("VERIF_C09_HUGE_RATE", "0.0004")):
            # a 12.6 MB index and 2 MB results (code paths only large payloads take: message splitting, frame limits)
            knobs.update(scheme="CJJ14.PiBas", cfg_index=0, db={"__huge__": 180000}, decoy=False, stall=None, read_fault=None, blocker=None, kill_mid=None)
            steps[:] = [dict(st, w=w_) for st, w_ in zip(steps[:4], ["huge-keyword", "small", "absent1", "huge-keyword"])]
        knobs["kill_mid"] = None
        if knobs["stall"] is None and knobs["read_fault"] is None and rng.random() < 0.06:
            knobs["kill_mid"] = {"search": rng.randrange(len(steps)), "after": rng.choice([0.0, 0.002, 0.01, 0.03, 0.08])}
        knobs["blocker"] = None
        if knobs["stall"] is None and knobs["read_fault"] is None and knobs["kill_mid"] is None and rng.random() < 0.06:
            knobs["blocker"] = {"search": rng.randrange(len(steps)), "hold": rng.choice([5, 30, 70, 70])}
        knobs["restart_before_step"] = rng.choice([1, 2, 3, 4, 4]) if rng.random() < 0.15 else None  # server restart before gen_key / encrypt / upload_config / upload_index
        knobs["server_down"] = None
        if knobs["stall"] is None and knobs["read_fault"] is None and knobs["kill_mid"] is None and knobs["blocker"] is None and rng.random() < 0.06:
            # the server is not running when a new client object sends this request; it is started afterwards and the same object tries again
            knobs["server_down"] = {"search": rng.randrange(len(steps)), "wait": rng.choice([0.01, 1.0, 30.0])}
        knobs["write_fault"] = None
        if all(knobs.get(k) is None for k in ("stall", "read_fault", "kill_mid", "blocker", "server_down")) and rng.random() < 0.06:
            # the server's disk is full for one write (ENOSPC) from this search on: while searching the server only writes its state file
            # when a connection ends; whatever that does to the connection that is hit, the next client object must be served
            knobs["write_fault"] = {"search": rng.randrange(len(steps)), "torn": rng.random() < 0.5}
        knobs["sync_construct"] = rng.random() < 0.2  # client objects are built outside any running event loop (synchronous code, asyncio.run later)
        if rng.random() < 0.25:
            knobs["mtime_gran"] = rng.choice([1, 2])  # coarse file time stamps
        if rng.random() < 0.15:
            knobs["reboot_clock"] = rng.choice([-3600.0, -5.0, -3 * 86400.0, 3600.0, 9 * 86400.0])  # the wall clock is stepped at the first server restart
        return {"property": "C09", "seed": seed, "knobs": knobs, "steps": steps}

    def enumerate(self, tier):
        plans = []
        db = {"alpha": ["0000000000000001", "0000000000000002", "0000000000000003"], "beta": ["0000000000000004"], "gamma": ["0000000000000005", "0000000000000001"]}
        for mask in itertools.product([False, True], repeat=7):
            for restart in ("none", "after_upload", "between_searches"):
                steps = [{"w": "alpha", "recreate": mask[4], "gap": 0, "restart": False},
                         {"w": "nothing", "recreate": mask[5], "gap": 0, "restart": restart == "between_searches"},
                         {"w": "gamma", "recreate": mask[6], "gap": 0, "restart": False}]
                knobs = dict(scheme="CJJ14.PiBas", cfg_index=0, db=db, recreate=list(mask[:4]) + [mask[4]], gaps=[0, 0, 0, 0, 0],
                             restart_after_upload=restart == "after_upload", net=dict(lo=0.001, hi=0.02), skew=1.0, bufsize=8192, stall=None)
                plans.append({"property": "C09", "seed": 5000 + len(plans), "knobs": knobs, "steps": steps, "enumerated": True})
        return plans

    # ------------------------------------------------------------------ execution
    def execute(self, plan):
        res = P.Result()
        knobs = plan["knobs"]
        run = fe.Run(plan["seed"], knobs)
        run.sim.loop.max_time = 100000.0  # idle periods of up to 4000 s per search are part of the plans
        out = dict(obs=[], probes={}, cover={})
        try:
            with world.Watchdog(900 if "__huge__" in knobs["db"] else 180):
                try:
                    run.sim.run(self._driver(run, plan, out, res.violations))
                except (core.SimLimit, core.SimDeadlock) as e:
                    res.violations.append(V("C09", "HANG", f"run did not finish: {e}"))
            res.digest = run.sim.digest()
            res.sim_seconds = run.sim.loop._vt
            res.events = run.sim.loop.steps
            res.counters = dict(run.sim.counters)
        finally:
            run.finish()
        if run.fd_growth >= 4 and run.fd_growth >= 0.5 * run.sim.nconn and not res.violations:
            # every search is one more connection; descriptors that stay open per connection end in EMFILE for a long enough sequence
            res.violations.append(V("C09.search", "RESOURCE_LEAK", f"the run's {run.sim.nconn} connections left {run.fd_growth} file descriptors open in the "
                                                                   f"process (none are left open on a run of the unchanged kind): a long enough sequence of "
                                                                   f"searches runs out of descriptors and stops being answered", site="descriptor-leak"))
        res.probes = out["probes"]
        res.cover = out["cover"]
        res.inconclusive = out.get("inconclusive")
        res.shape = P.shape_of((knobs["scheme"], knobs["cfg_index"], knobs["recreate"], knobs["restart_after_upload"], out["obs"]))
        res.nontrivial = (out.get("recreations", 0) + out.get("restarts", 0)) > 0 and out.get("answered", 0) > 0
        res.trace = dict(scheme=knobs["scheme"], cfg=GRID[knobs["scheme"]][knobs["cfg_index"]], db_shape=[(v if isinstance(v, int) else len(v)) for v in knobs["db"].values()],
                         observed=[list(map(str, o)) for o in out["obs"][:40]])
        return res

    async def _driver(self, run, plan, out, viol):
        from toolkit.database_utils import convert_database_keyword_to_bytes
        knobs = plan["knobs"]
        scheme = knobs["scheme"]
        probes = out["probes"]
        probes["scheme_" + scheme] = 1
        if "__huge__" in knobs["db"]:
            probes["huge_payload"] = 1
        if knobs.get("separate_hosts"):
            probes["separate_hosts"] = 1
        if knobs.get("sync_construct"):
            probes["client_built_outside_loop"] = 1
        L, cfg = fe.default_config(scheme)
        cfg.update(GRID[scheme][knobs["cfg_index"]])
        default_cfg = knobs["cfg_index"] == 0
        if not default_cfg:
            probes["nondefault_config"] = 1
        db = expand_db(knobs["db"])
        if scheme == "CGKO06.SSE2":
            cfg["param_n"] = len({x for v in db.values() for x in v}) + knobs.get("sse2_spare", 0)  # a capacity, may be an over-estimate
        out["recreations"] = out["restarts"] = out["answered"] = 0
        run.boot_server()
        await asyncio.sleep(0.01)
        if knobs.get("decoy"):
            if not await self._decoy(run, scheme, knobs, probes):
                out["inconclusive"] = "decoy service could not be set up"
                return
        host = fe.ClientHost(run)
        loop = asyncio.get_event_loop()
        last_close_t = [-10.0]

        async def recreate(why, gap):
            out["recreations"] += 1
            probes[why] = 1
            r = await host.drop()
            last_close_t[0] = loop.time()
            await asyncio.sleep(gap)
            if gap < 1.0:
                probes["recreate_inside_cleanup_window"] = 1
            return r

        def classify_failure(step, r, direct):
            """a workflow step raised: scheme-caused (the direct API call raises the same) or a frontend failure"""
            exc = r[1]
            if direct is not None:
                try:
                    direct()
                except Exception as e2:
                    if type(e2) is type(exc):
                        import traceback
                        tb = traceback.extract_tb(e2.__traceback__)
                        site = next((f"{fr.filename.rsplit('/', 3)[-3]}.{fr.filename.rsplit('/', 3)[-2]}:{fr.name}" for fr in reversed(tb) if "/schemes/" in fr.filename), "scheme")
                        return "SCHEME_RAISES", site
            return "STEP_FAILED", step

        sid = None
        kept_all = True
        # ---- the workflow
        for i, step in enumerate(WORKFLOW):
            if i > 0 and knobs.get("restart_before_step") == i:
                # the server program is restarted between two steps of the workflow (e.g. configuration uploaded, index not yet)
                kept_all = False
                await host.drop()
                await asyncio.sleep(knobs["gaps"][i - 1])
                await self._restart(run, host, out)
                probes["server_restart_inside_workflow"] = 1
            elif i > 0 and knobs["recreate"][i - 1]:
                kept_all = False
                await recreate("recreate_before_" + step, knobs["gaps"][i - 1])
            fresh = host.obj is None
            direct = None
            if step == "create":
                r = await host.create(copy.deepcopy(cfg))
                direct = lambda: L.SSEConfig(copy.deepcopy(cfg))
            elif step == "gen_key":
                r = await host.gen_key(sid, fresh=fresh)
                direct = lambda: L.SSEScheme(copy.deepcopy(cfg)).KeyGen()
            elif step == "encrypt":
                r = await host.encrypt(sid, copy.deepcopy(db), fresh=fresh)

                def direct():
                    S = L.SSEScheme(copy.deepcopy(cfg))
                    S.EDBSetup(S.KeyGen(), copy.deepcopy(db))
            elif step == "upload_config":
                r = await host.upload_config(sid, fresh=fresh, keep=True)
            else:
                r = await host.upload_index(sid, fresh=fresh, keep=True)
            out["obs"].append((step, r[0] if r[0] != "exc" else type(r[1]).__name__))
            if r[0] != "ok":
                kind, site = classify_failure(step, r, direct)
                if not default_cfg and step in ("create", "gen_key", "encrypt"):
                    out["inconclusive"] = f"non-default configuration refused loudly at {step} ({type(r[1]).__name__})"
                    return
                viol.append(V("C09.workflow", kind, f"{step} raised {r[1]!r:.120} for a valid database under the default configuration "
                                                    f"(db list lengths {[len(v) for v in db.values()]})", site=site, exc=type(r[1]).__name__))
                return
            if step == "create":
                sid = r[1]
            if step in ("upload_config", "upload_index"):
                box = r[1][0]
                ack = pickle.loads(box[0]) if box else None
                if not (isinstance(ack, dict) and ack.get("ok") is True):
                    viol.append(V("C09.workflow", "STEP_FAILED", f"{step} returned but the callback received {ack!r:.60}", site=step))
                    return
        if kept_all:
            probes["kept_object_whole_workflow"] = 1
        if knobs.get("real_restart"):
            await self._real_restart(run, plan, sid, host, out, viol, probes)
            return
        first = True
        if knobs["restart_after_upload"]:
            await self._restart(run, host, out)
            probes["server_restart_before_first_search"] = 1
        # ---- the searches
        stall = knobs.get("stall")
        after_fault = False
        for si, st in enumerate(plan["steps"]):
            w = st["w"].encode("utf-8")
            if after_fault and host.obj is not None:
                pass  # a long-lived client that just sat through a fault goes on with the same object
            elif st.get("restart") and not first:
                await self._restart(run, host, out)
                probes["server_restart_between_searches"] = 1
            elif st.get("recreate") or (first and knobs["recreate"][4]):
                await recreate("recreate_before_first_search" if first else "recreate_between_searches", st.get("gap", 0))
            if st.get("idle"):
                probes["idle_connection"] = 1
                await asyncio.sleep(st["idle"])
            stalled = False
            if stall and stall["search"] == si:
                # the reply to this request is what stalls (not the handshake or the init echo of a connection just opened)
                run.sim.stall_once = ("s", stall["secs"], 2 + 2 * (knobs["net"].get("seg", 1) > 1))
                stalled = True
                if stall["secs"] >= 60:
                    probes["stall_over_60s"] = 1
            bl = knobs.get("blocker")
            if bl is not None and bl["search"] == si:
                # another connection for the same service is open (a forgotten terminal): it is served first, this client's requests
                # queue on the server for bl["hold"] seconds -- longer than the client's 60 s patience when hold >= 61
                await host.drop()
                blocker = fe.RawActor(run, "blocker", sid)
                await blocker.open()
                await blocker.wait_change(lambda: blocker.init is not None, 30)
                probes["blocked_by_other_connection"] = 1
                run.sim.count("blocker")

                async def release(b=blocker, hold=bl["hold"]):
                    await asyncio.sleep(hold)
                    await b.close()
                run.sim.tasks.append(asyncio.ensure_future(release()))
                stalled = True
            km = knobs.get("kill_mid")
            if km is not None and km["search"] == si:
                # the server process dies while this request is in flight (any moment, not only at a disk event)
                probes["server_killed_mid_request"] = 1
                kill_handle = loop.call_later(km["after"], run.kill_server)
                stalled = True
            dn = knobs.get("server_down")
            if dn is not None and dn["search"] == si and not after_fault:
                probes["request_while_server_down"] = 1
                run.sim.count("server_down_request")
                await host.drop()
                run.kill_server()
                await asyncio.sleep(0.2)
                r0 = await host.search(sid, w, fresh=True, keep=True)  # cannot succeed; the application keeps the object
                if r0[0] == "ok" and r0[1][0]:
                    viol.append(V("C09.search", "WRONG_RESULT", f"search({st['w']!r}) delivered a result although no server was running", site="search"))
                    return
                out["obs"].append(("search", "server-down", "failed"))
                out["restarts"] += 1
                run.boot_server()
                await asyncio.sleep(dn["wait"])
                # the same object tries again below: it never had a connection, there is no dead socket involved, so this search counts
            wf = knobs.get("write_fault")
            if wf is not None and wf["search"] == si:
                run.seam.fail_write = ["server", 0, wf.get("torn", False)]
            rf = knobs.get("read_fault")
            if rf is not None and rf["search"] == si:
                run.seam.fail_read = ("server", "edb")  # the server's next read of the stored index fails once (EMFILE)
            faulted = stalled or run.seam.fail_read is not None or run.seam.fail_write is not None or after_fault
            cls = "present" if w in db else "absent"
            if cls == "absent":
                probes["absent_keyword" if st["w"].startswith("absent") or st["w"] == "nothing" else "near_miss_keyword"] = 1
            nfault0 = run.sim.counters.get("read_error", 0) + run.sim.counters.get("stall", 0) + run.sim.counters.get("write_error", 0)
            r = await host.search(sid, w, fresh=host.obj is None, keep=True)
            run.sim.stall_once = None
            first = False
            if km is not None and km["search"] == si and run.server.alive:
                kill_handle.cancel()  # the reply won the race: no fault happened
                km = None
            hit = ((run.sim.counters.get("read_error", 0) + run.sim.counters.get("stall", 0) + run.sim.counters.get("write_error", 0)) > nfault0 or (bl is not None and bl["search"] == si)
                   or (km is not None and km["search"] == si))
            if not run.server.alive:
                # (killed mid-request) the operator restarts the server program; the client process of that time is gone
                await asyncio.sleep(0.2)
                run.boot_server()
                await asyncio.sleep(0.01)
                out["restarts"] += 1
                host.restart("client-k%d" % out["restarts"])
                after_fault = False
                if r[0] == "ok":
                    r = ("exc", RuntimeError("reply raced the kill"))  # judged like a failed operation: retried below
            if run.sim.counters.get("read_error", 0):
                probes["server_read_error"] = 1
            if r[0] != "ok":
                if (hit or after_fault) and r[0] == "exc":
                    # the one relaxed case: an operation hit by an injected stall / failing system call -- or issued on the very client
                    # object that sat through one -- may fail; nothing wrong may be delivered, and a new client object must succeed
                    out["obs"].append(("search", cls, "failed-under-fault"))
                    probes["op_failed_under_fault"] = 1
                    run.seam.fail_read = None
                    if knobs.get("keep_after_fault") and not after_fault and host.obj is not None and not (km is not None and km["search"] == si):
                        after_fault = True  # a long-lived client simply goes on with its next search on the same object
                        probes["client_object_kept_after_fault"] = 1
                        continue
                    await host.drop()  # the application gives up on this object (its process ends: the connection is closed)
                    after_fault = False
                    await asyncio.sleep(80)
                    r = await host.search(sid, w, fresh=True, keep=True)
                    if r[0] != "ok":
                        viol.append(V("C09.search", "STEP_FAILED", f"search({st['w']!r}) on a new client object after a faulted one failed: {r[1]!r:.100}", site="search-after-fault"))
                        return
                else:
                    def direct():
                        S = L.SSEScheme(copy.deepcopy(cfg))
                        K = S.KeyGen()
                        S.Search(S.EDBSetup(K, copy.deepcopy(db)), S.TokenGen(K, w))
                    kind, site = classify_failure("search", r, direct)
                    viol.append(V("C09.search", kind, f"search({st['w']!r}, {cls}) raised {r[1]!r:.120} ({scheme}, lists {[len(v) for v in db.values()]})", site=site,
                                  exc=type(r[1]).__name__))
                    return
            if r[0] == "ok" and after_fault and not hit:
                after_fault = False
            box, s = r[1]
            if len(box) != 1:
                viol.append(V("C09.search", "WRONG_RESULT", f"search({st['w']!r}): the callback was called {len(box)} times", site="search"))
                return
            try:
                got = fe.result_list(s.sse_module_loader, s.config_object, box[0])
            except Exception as e:
                viol.append(V("C09.search", "WRONG_RESULT", f"search({st['w']!r}): delivered bytes do not deserialize: {e!r:.80}", site="search"))
                return
            want = db.get(w, [])
            out["answered"] += 1
            out["obs"].append(("search", cls, "ok", len(want)))
            out["cover"][f"{scheme}:{cls}"] = 1
            if not same_result(got, want):
                viol.append(V("C09.search", "WRONG_RESULT", f"search({st['w']!r}, {cls}) delivered {len(got)} identifiers, the database has {len(want)} "
                                                            f"({scheme}, cfg {GRID[scheme][knobs['cfg_index']]}, lists {[len(v) for v in db.values()]})", site="search"))
                return
        await host.drop()
        await asyncio.sleep(3)

    async def _real_restart(self, run, plan, sid, host, out, viol, probes):
        """the server *program* is restarted for real: the rest of the run (boot, client from disk, searches) happens in a second
        interpreter with another PYTHONHASHSEED on the same scratch directory (sim/ssesim/phase2.py)"""
        import json
        import subprocess
        import sys
        import tempfile
        await host.drop()
        await asyncio.sleep(plan["knobs"]["gaps"][4])
        run.kill_server()
        out["restarts"] += 1
        out["recreations"] += 1
        probes["real_restart_new_interpreter"] = 1
        run.sim.count("real_restart")
        job = dict(plan=plan, sid=sid, seed=core.h64(plan["seed"], "phase2") & 0x7FFFFFFF)
        fd, jpath = tempfile.mkstemp(prefix="ssesim-phase2-", suffix=".json", dir=world.scratch_root())
        with os.fdopen(fd, "w") as f:
            json.dump(job, f)
        env = dict(os.environ, SSESIM_HOME=world.scratch_root(), HOME=world.scratch_root(),
                   PYTHONHASHSEED=str(1 + core.h64(plan["seed"], "hashseed") % 1000003),
                   SSESIM_IMPORT_SEED=str(core.h64(plan["seed"], "import-time-randomness")))
        rp = subprocess.run([sys.executable, "-u", "-m", "ssesim.phase2", jpath], env=env, capture_output=True, text=True, timeout=300)
        os.unlink(jpath)
        line = next((ln for ln in rp.stdout.splitlines() if ln.startswith("PHASE2-RESULT ")), None)
        if line is None:
            raise RuntimeError(f"harness: post-restart interpreter failed (exit {rp.returncode}): {rp.stderr[-800:]}")
        r2 = json.loads(line[len("PHASE2-RESULT "):])
        out["answered"] += len(r2["obs"])
        out["obs"].extend(tuple(o) for o in r2["obs"])
        out["obs"].append(("phase2-digest", r2["digest"]))
        for v in r2["violations"]:
            viol.append(V(v["clause"], v["kind"], v["detail"], site=v.get("site")))

    async def _decoy(self, run, scheme, knobs, probes):
        """another service of the same scheme with a different valid configuration (the first one of the grid that the scheme
        accepts) and database, taken through the whole workflow and searched once on the same server process before the
        service under test exists"""
        from toolkit.database_utils import convert_database_keyword_to_bytes
        alts = [i for i in range(len(GRID[scheme])) if i != knobs["cfg_index"]] + [knobs["cfg_index"]]
        host = fe.ClientHost(run, "decoy-client")
        for ci in alts:
            L, cfg = fe.default_config(scheme)
            cfg.update(GRID[scheme][ci])
            z = fe.id_size(cfg)
            db = convert_database_keyword_to_bytes({"decoy": [(b"\xd0" + i.to_bytes(z - 1, "big")).hex() for i in range(1, 4)], "alpha": [(b"\xd1" * z).hex()]})
            if scheme == "CGKO06.SSE2":
                cfg["param_n"] = 4
            r = await host.create(cfg)
            if r[0] != "ok":
                continue
            sid = r[1]
            ok = True
            for op in (lambda: host.gen_key(sid), lambda: host.encrypt(sid, db), lambda: host.upload_config(sid), lambda: host.upload_index(sid),
                       lambda: host.search(sid, b"decoy")):
                r = await op()
                if r[0] != "ok":
                    ok = False
                    break
            if ok:
                probes["decoy_service"] = 1
                if ci != knobs["cfg_index"]:
                    probes["decoy_other_config"] = 1
                return True
        return False

    async def _restart(self, run, host, out):
        out["restarts"] += 1
        out["recreations"] += 1
        host.obj = None  # the client process of that time is gone with its socket
        run.kill_server()
        await asyncio.sleep(0.2)
        d = run.knobs.get("reboot_clock")
        if d and out["restarts"] == 1:
            run.wall_off += d  # the machine comes back with another idea of the time
            run.sim.count("clock_step_back" if d < 0 else "clock_step_forward")
        run.boot_server()
        await asyncio.sleep(0.01)
        host.restart("client-r%d" % out["restarts"])

    # ------------------------------------------------------------------ minimisation
    def simplifications(self, plan):
        k = plan["knobs"]
        for key, val in (("skew", 1.0), ("bufsize", 8192), ("net", dict(lo=0.01, hi=0.01)), ("stall", None), ("restart_after_upload", False),
                         ("recreate", [False] * 5), ("gaps", [0] * 5), ("cfg_index", 0), ("decoy", False), ("sse2_spare", 0), ("read_fault", None), ("blocker", None), ("real_restart", False), ("separate_hosts", False), ("kill_mid", None), ("mtime_gran", None), ("reboot_clock", None), ("server_down", None), ("sync_construct", False), ("restart_before_step", None), ("write_fault", None)):
            if k.get(key) != val:
                yield dict(plan, knobs=dict(k, **{key: val}))
        db = k["db"]
        if "__huge__" in db:
            return
        if len(db) > 1:
            for kw in list(db):
                yield dict(plan, knobs=dict(k, db={a: b for a, b in db.items() if a != kw}))
        for kw, ids in db.items():
            if len(ids) > 1:
                yield dict(plan, knobs=dict(k, db=dict(db, **{kw: ids[:len(ids) // 2]})))
                yield dict(plan, knobs=dict(k, db=dict(db, **{kw: ids[:-1]})))
        steps = plan["steps"]
        for i, st in enumerate(steps):
            if st.get("recreate") or st.get("restart") or st.get("gap") or st.get("idle"):
                yield dict(plan, steps=steps[:i] + [dict(st, recreate=False, restart=False, gap=0, idle=0)] + steps[i + 1:])

    def finding_shape(self, plan, v):
        k = plan["knobs"]
        lens = sorted((x if isinstance(x, int) else len(x)) for x in k["db"].values())
        n = sum(lens)
        pow2 = n > 0 and (n & (n - 1)) == 0
        if v.get("kind") == "SCHEME_RAISES":
            # which databases a scheme cannot index: exception + shape predicate
            return f"{v.get('exc')}:{'one-keyword' if len(lens) == 1 else 'multi-keyword'}:{'N=2^t' if pow2 else 'N!=2^t'}"
        return f"{k['scheme']}:cfg{k['cfg_index']}:kw{len(lens)}:N{n}:max{lens[-1] if lens else 0}"


PROPERTY = C09()
