"""C10 -- the server keeps each service in a forward-only, write-once state machine."""
import asyncio
import itertools
import pickle

from .. import core, fe, world
from .. import prop as P
from ..prop import V

C10_SCHEMES = ["CJJ14.PiBas", "CJJ14.PiPack", "CJJ14.PiPtr", "CJJ14.Pi2Lev", "CT14.Pi", "ANSS16.Scheme3", "DP17.Pi"]
WORDS = ["both", "only1", "only2", "none"]
def sids_for(style):
    """(service id under test, foreign sid used inside messages, sid of the decoy service).  The server takes any string as a
    service id; the stock client sends 64 hex digits.  'dotted' and 'long' pick ids that stay distinct as strings (and as
    directory names) but look alike: they differ only in punctuation, or only after the 128th character."""
    if style == "dotted":
        base = "c10.svc-" + "cd" * 28
        return base, "f" * 64, base.replace(".", "_").replace("-", ".")
    if style == "glob":
        # characters that mean something to glob / fnmatch are ordinary characters in a service id
        base = "c10" + "ab" * 30
        return base + "?", "f" * 64, base + "7"
    if style == "long":
        base = "c10" + "cd" * 70
        return base + "-tail-A", "f" * 64, base + "-tail-B"
    return "c10" + "cd" * 30 + "e", "f" * 64, "c10" + "de" * 30 + "c"


class C10(P.Property):
    pid = "C10"
    level = "exploration"
    mode = "frontend"
    tiers = {"quick": dict(runs=4500, budget_s=60), "thorough": dict(runs=200000, budget_s=800)}
    technique = ("deterministic simulation: seeded raw-protocol message histories over consecutive simulated connections against a "
                 "3-state reference model, plus all histories of length <= 4 over a reduced alphabet")
    level_text = ("seeded exploration of message histories (3-14 messages: two configurations, two indexes, tokens of two keys with unique / "
                  "constant / absent digests, pipelined pairs, malformed-but-refusable contents, graceful and aborted reconnects inside / after "
                  "the cleanup window and after 30 s, foreign sid, unknown type; decoy service; look-alike service ids; gc points; zero-latency "
                  "and busy-loop profiles) compared step by step with a reference model; the short-history sweep (1554 histories) is "
                  "exhaustive for its alphabet, the rest is sampling")
    level_note = ("trusted: reference model and interpreter in props/c10.py, the simulator; a refusal is observed as 'no ok reply and "
                  "no result' (explicit ok=False, or the server closing the connection, or silence for 30 simulated seconds)")
    rule = ("history = 3..14 messages from {config(c1|c2), upload(e1|e2), search(key x keyword), reconnect(graceful|abort, gap 0/.5/1.5s), "
            "foreign-sid message, unknown type} on consecutive connections + scheme + network profile; non-trivial = at least one "
            "request and at least one reconnect (connection end = the fault/restart event of this property); distinct = digest of "
            "(model state, message kind, outcome)* sequence")
    real_stub = dict(C12_like="see C12: real server + websockets on the simulated loop/TCP/disk seam; harness actor speaks the wire format; wall clock (time.time) and file time stamps (os.stat) simulated: follow the virtual clock, steppable, per-run stamp granularity")
    assumptions = ["connections are consecutive, never overlapping (overlap is C12)",
                   "tokens under the other key are valid messages and must produce an empty result"]
    probe_names = ["forced_reconnect", "reconnect_inside_cleanup", "abort_reconnect", "second_config_refused", "second_upload_refused",
                   "search_before_ready_refused", "foreign_sid_ignored", "unknown_type", "search_other_key", "search_absent_keyword", "decoy_service", "pipelined_pair", "ack_lost_behind_refused_pipelined_request", "malformed_content_refused", "connection_failed_on_read_error", "search_on_unparsable_index"]
    exhaustive = False

    def setup(self):
        world.setup_frontend()
        self.worlds = {}

    def world_for(self, scheme, variant=0):
        w = self.worlds.get((scheme, variant))
        if w is None:
            world.seed_randomness(("c10-world", scheme, variant))
            L, cfg0 = fe.default_config(scheme)
            if variant:
                # a valid configuration that differs from the scheme's defaults (16-byte keys), so that "the configuration that was
                # accepted" is not what a server would get by filling in defaults
                cfg0.update({"param_lambda": 16, "prf_f_output_length": 16} if scheme.startswith("CJJ14.") else {"param_lambda": 16})
            c = [dict(cfg0, salt="s1"), dict(cfg0, salt="s2", extra=1)]
            S = L.SSEScheme(dict(c[0]))
            z = fe.id_size(cfg0)
            DB = [{b"both": [b"\x11" * z, b"\x12" * z], b"only1": [b"\x13" * z]},
                  {b"both": [b"\x21" * z], b"only2": [b"\x22" * z, b"\x23" * z, b"\x24" * z]}]
            K = [S.KeyGen(), S.KeyGen()]
            E = [S.EDBSetup(K[i], DB[i]).serialize() for i in range(2)] + [b"\x00this is not an index\xff" * 3]
            T = {(i, wd): S.TokenGen(K[i], wd.encode()).serialize() for i in range(2) for wd in WORDS}
            Kd = S.KeyGen()
            DBd = {b"both": [b"\x31" * z, b"\x32" * z, b"\x33" * z], b"only1": [b"\x34" * z, b"\x35" * z], b"only2": [b"\x36" * z]}
            w = self.worlds[(scheme, variant)] = dict(L=L, cfgobj=L.SSEConfig(dict(c[0])), C=c, DB=DB, E=E, T=T,
                                           E_decoy=S.EDBSetup(Kd, DBd).serialize(), T_decoy=S.TokenGen(Kd, b"both").serialize())
        return w

    def gen(self, seed, tier):
        rng = P.stream(seed, "workload")
        steps = []
        kinds = ["config", "config", "upload", "upload", "search", "search", "search", "reconnect", "foreign", "unknown", "config_bad", "upload_bad"]
        enabled = [k for k in kinds if rng.random() < 0.8] or ["config", "upload", "search"]
        for _ in range(rng.randint(3, 14)):
            k = rng.choice(enabled)
            if k in ("config", "upload", "search"):
                def mk(kind):
                    if kind == "config":
                        return {"do": kind, "c": rng.randint(0, 1)}
                    if kind == "upload":
                        e_ = rng.randint(0, 1)
                        if rng.random() < 0.08:
                            e_ = 2  # bytes that are no index of this scheme: the server stores what it is sent; a search can then not be answered
                        return {"do": kind, "e": e_}
                    return {"do": kind, "key": rng.randint(0, 1), "w": rng.choice(WORDS)}
                st_ = mk(k)
                if k in ("config", "upload") and rng.random() < 0.08:
                    # fields the protocol does not know, named like things the server keeps: they are the client's business and change nothing
                    st_["xf"] = rng.choice([{"state": 31}, {"state": 0}, {"ok": False}, {"config": "x", "edb": "y"}])
                if rng.random() < 0.25:
                    st_["burst"] = mk(rng.choice(["config", "upload", "upload", "search"]))
                steps.append(st_)
            elif k == "reconnect":
                steps.append({"do": k, "gap": rng.choice([0, 0.5, 1.5, 0, 0.5, 1.5, 30, 700000]), "abort": rng.random() < 0.3})  # 700000 s: eight days later
            elif k in ("config_bad", "upload_bad"):
                steps.append({"do": k, "v": rng.randint(0, 1)})
            elif k == "foreign":
                steps.append({"do": k, "m": rng.choice(["config", "upload", "search"])})
            else:
                steps.append({"do": k})
        knobs = dict(scheme=rng.choice(C10_SCHEMES),
                     net=rng.choice([dict(lo=0.001, hi=0.05), dict(lo=0.001, hi=0.05, seg=3), dict(lo=0.0005, hi=0.004), dict(lo=0.01, hi=0.3, tail=0.1, seg=2),
                                     dict(lo=0.0, hi=0.0), dict(lo=0.0, hi=0.0, quantum=0.001), dict(lo=0.0005, hi=0.004, quantum=0.002)]),  # no latency / busy loop at all -- events tie and only the loop's FIFO order decides
                     skew=rng.choice([1.0, 1.0, 0.5, 2.0]), bufsize=rng.choice([8192, 8192, 16]), forced_gap=rng.choice([0, 0.5, 1.5]),
                     decoy=rng.random() < 0.5, gc_every=rng.choice([0, 0, 1, 3]),
                     digest=rng.choice(["unique", "unique", "same", "none"]), sid_style=rng.choice(["hex", "hex", "dotted", "long", "glob"]),
                     read_fault=({"step": rng.randrange(len(steps)), "skip": rng.choice([0, 0, 1, 2])} if rng.random() < 0.1 else None))
        knobs["cfg_variant"] = rng.random() < 0.3
        if rng.random() < 0.3:
            knobs["mtime_gran"] = rng.choice([1, 2])  # a file system with coarse time stamps: writes within one tick carry the same stamp
        if rng.random() < 0.15 and steps:
            # the wall clock is stepped before that step (NTP correction, VM resume): time.time() and new file stamps jump, loop time does not
            knobs["clock_steps"] = {str(rng.randrange(len(steps))): rng.choice([-3600.0, -5.0, -0.5, -3 * 86400.0, 3600.0, 9 * 86400.0])}
        return {"property": "C10", "seed": seed, "knobs": knobs, "steps": steps}

    def enumerate(self, tier):
        alpha = [{"do": "config", "c": 0}, {"do": "config", "c": 1}, {"do": "upload", "e": 0}, {"do": "upload", "e": 1},
                 {"do": "search", "key": 0, "w": "both"}, {"do": "reconnect", "gap": 0, "abort": False}]
        plans = []
        for n in range(1, 5):
            for combo in itertools.product(range(len(alpha)), repeat=n):
                plans.append({"property": "C10", "seed": 1000 + len(plans), "knobs": dict(scheme="CJJ14.PiBas", net=dict(lo=0.001, hi=0.02), skew=1.0, bufsize=8192, forced_gap=0),
                              "steps": [dict(alpha[i]) for i in combo], "enumerated": True})
        # two long grinds: 70 refused requests in a row (each ends its connection), alternating with aborted connections, then the
        # ordinary flow -- whatever a server keeps per refused or vanished connection must not add up to anything
        for first in (0, 2):
            grind = []
            for i in range(70):
                grind.append({"do": "search", "key": 0, "w": "both"} if first == 0 else {"do": "upload", "e": i % 2})
                if i % 3 == 0:
                    grind.append({"do": "reconnect", "gap": 0, "abort": True})
            tail = ([{"do": "config", "c": 0}, {"do": "upload", "e": 0}] if first == 0 else []) + [{"do": "search", "key": 0, "w": "both"}, {"do": "reconnect", "gap": 0, "abort": False},
                                                                                                 {"do": "search", "key": 0, "w": "only1"}]
            pre = [] if first == 0 else [{"do": "config", "c": 0}, {"do": "upload", "e": 0}]
            plans.append({"property": "C10", "seed": 1000 + len(plans), "knobs": dict(scheme="CJJ14.PiBas", net=dict(lo=0.001, hi=0.02), skew=1.0, bufsize=8192, forced_gap=0),
                          "steps": pre + grind + tail, "enumerated": True})
        return plans

    def execute(self, plan):
        res = P.Result()
        knobs = plan["knobs"]
        SID, FOREIGN, DECOY = sids_for(knobs.get("sid_style", "hex"))
        w = self.world_for(knobs["scheme"], 1 if knobs.get("cfg_variant") and knobs["scheme"] in ("CJJ14.PiBas", "CJJ14.PiPack", "CJJ14.PiPtr", "CJJ14.Pi2Lev", "DP17.Pi") else 0)
        run = fe.Run(plan["seed"], knobs)
        run.sim.loop.max_time = 2.0e7  # reconnects may come eight (virtual) days later
        accepted = {}  # file name -> bytes on disk right after the request that created it was acknowledged
        msgno = [0]

        def check_write_once(si):
            """an accepted configuration / index is never replaced: the stored bytes stay what they were when accepted"""
            for name in ("config.json", "edb"):
                try:
                    with open(run.sse_path(SID, name), "rb") as f:
                        cur = f.read()
                except FileNotFoundError:
                    cur = None
                if name in accepted and cur != accepted[name]:
                    res.violations.append(V("C10.write_once", "REWRITE", f"after step {si} the stored {name} differs from the one that was accepted "
                                                                           f"({len(accepted[name])} -> {len(cur) if cur is not None else 'missing'} bytes)", site=name))
                    return False
            return True
        run.check_write_once = check_write_once
        run.accepted_files = accepted
        out = dict(obs=[], cover={}, probes={})
        try:
            with world.Watchdog(180):
                try:
                    run.sim.run(self._scenario(run, plan, w, out, res.violations, msgno))
                except (core.SimLimit, core.SimDeadlock) as e:
                    res.violations.append(V("C10", "HANG", f"run did not finish: {e}"))
            if not res.violations:
                check_write_once("last")
            res.digest = run.sim.digest()
            res.sim_seconds = run.sim.loop._vt
            res.events = run.sim.loop.steps
            res.counters = dict(run.sim.counters)
            res.counters["reconnect"] = out.get("reconnects", 0)
        finally:
            run.finish()
        res.probes = out["probes"]
        res.cover = out["cover"]
        res.shape = P.shape_of(out["obs"])
        res.nontrivial = out.get("requests", 0) > 0 and out.get("reconnects", 0) > 0
        res.trace = dict(scheme=knobs["scheme"], observed=[list(map(str, o)) for o in out["obs"]])
        return res

    async def _scenario(self, run, plan, w, out, viol, msgno):
        knobs = plan["knobs"]
        SID, FOREIGN, DECOY = sids_for(knobs.get("sid_style", "hex"))
        L, C, DB, E, T = w["L"], w["C"], w["DB"], w["E"], w["T"]
        probes = out["probes"]
        run.boot_server()
        await asyncio.sleep(0.01)
        st, cfg, edb = 0, None, None
        nact = [0]
        arm = [None]  # a read fault waiting for the next connection
        out["requests"] = 0
        out["reconnects"] = 0

        async def connect(why, _retry=True):
            nact[0] += 1
            a = fe.RawActor(run, "a%d" % nact[0], SID)
            nre0 = run.sim.counters.get("read_error", 0)
            if arm[0] is not None:
                run.seam.fail_read, arm[0] = arm[0], None
            pending = run.seam.fail_read is not None
            try:
                await a.open()
            except Exception as e:
                viol.append(V("C10.init", "UNUSABLE", f"{why}: connecting failed: {e!r}"))
                return None
            await a.wait_change(lambda: a.init is not None, 30)
            if pending and a.init is not None:
                # the server reads the state file once more after the init echo (when the connection gets its turn): let that
                # happen before judging this connection
                await a.wait_change(lambda: False, 3.5 * max(1.0, knobs.get("skew", 1.0)))
            if (a.init is None or a.closed_seen) and _retry and run.sim.counters.get("read_error", 0) > nre0:
                # the injected read error (EMFILE on the state file) hit this connection: it may fail; the next one must be fine
                probes["connection_failed_on_read_error"] = 1
                await a.close()
                await asyncio.sleep(knobs.get("forced_gap", 0))
                return await connect(why + " (again, after an injected read error)", _retry=False)
            if a.init is None:
                viol.append(V("C10.init", "UNUSABLE", f"{why}: no init echo within 30 s (model state {st})"))
                return None
            if a.init.get("state") != st or a.init.get("ok") is not True:
                viol.append(V("C10.init", "STATE_MISMATCH", f"{why}: init echo {a.init}, reference model state {st}"))
                return None
            out["obs"].append(("init", st))
            return a

        if knobs.get("decoy"):
            # another service of the same server process, brought to the ready state and searched once (so that whatever the
            # server keeps in memory for it exists) before the history on the service under test starts
            probes["decoy_service"] = 1
            d = fe.RawActor(run, "decoy", DECOY)
            await d.open()
            await d.wait_change(lambda: d.init is not None, 30)
            await d.send("config", pickle.dumps(C[1]))
            await d.wait_change(lambda: "config" in d.acks, 30)
            await d.send("upload_edb", w["E_decoy"])
            await d.wait_change(lambda: "upload_edb" in d.acks, 30)
            await d.send("token", w["T_decoy"], token_digest=b"decoy")
            await d.wait_change(lambda: len(d.results) > 0, 30)
            if not d.results:
                viol.append(V("C10.init", "UNUSABLE", "the decoy service could not be set up"))
                return
            await d.close()
            await asyncio.sleep(knobs.get("forced_gap", 0))
        a = await connect("first connection")
        if a is None:
            return
        for si, step in enumerate(plan["steps"]):
            do = step["do"]
            run.maybe_gc(si)
            rf = knobs.get("read_fault")
            if rf is not None and rf["step"] == si:
                arm[0] = ("server", "service_meta", rf.get("skip", 0))  # takes effect at the next connection that is opened
            if do == "reconnect":
                out["reconnects"] += 1
                if step.get("abort"):
                    probes["abort_reconnect"] = 1
                if step.get("gap", 0) < 1.0:
                    probes["reconnect_inside_cleanup"] = 1
                await a.close(abort=bool(step.get("abort")))
                await asyncio.sleep(step.get("gap", 0))
                a = await connect(f"step {si} reconnect")
                if a is None:
                    return
                continue
            nack, nref, nres = len(a.acks), len(a.refused), len(a.results)
            out["requests"] += 1
            msgno[0] += 1
            if do == "foreign":
                m = step.get("m", "config")
                if m == "config":
                    await a.send("config", pickle.dumps(C[0]), sid=FOREIGN)
                elif m == "upload":
                    await a.send("upload_edb", E[0], sid=FOREIGN)
                else:
                    await a.send("token", T[(0, "both")], sid=FOREIGN, token_digest=b"f")
                await asyncio.sleep(0.6)
                replied = (len(a.acks), len(a.refused), len(a.results)) != (nack, nref, nres)
                out["obs"].append((st, "foreign", "reply" if replied else "closed" if a.closed_seen else "ignored"))
                out["cover"][f"s{st}:foreign:{'reply' if replied else 'closed' if a.closed_seen else 'ignored'}"] = 1
                if replied:
                    viol.append(V("C10.foreign", "REFUSAL_MISMATCH", f"step {si}: a message carrying a foreign sid was answered"))
                    return
                if not a.closed_seen:
                    probes["foreign_sid_ignored"] = 1
                    continue
                # (closing the connection is a refusal too; the stored state must be untouched, which the reconnect below checks)
            if do == "foreign":
                out["obs"].append((st, "foreign", "closed"))
            elif do == "unknown":
                await a.send("bogus-type", b"x")
                # the server may answer by closing the connection; give the close handshake time to arrive
                await a.wait_change(lambda: (len(a.acks), len(a.results)) != (nack, nres), 15.0)
                probes["unknown_type"] = 1
                if (len(a.acks), len(a.results)) != (nack, nres):
                    viol.append(V("C10.unknown", "REFUSAL_MISMATCH", f"step {si}: a message of unknown type was acknowledged"))
                    return
                out["obs"].append((st, "unknown", "closed" if a.closed_seen else "ignored"))
                out["cover"][f"s{st}:unknown:{'closed' if a.closed_seen else 'ignored'}"] = 1
                accepted_expected = None
            else:
                async def send(m, tag):
                    if m["do"] == "config_bad":
                        # a configuration upload the server cannot store (not JSON-serialisable): a request that has to be refused
                        bad = dict(C[0], extra={1, 2}) if m.get("v", 0) == 0 else dict(C[1], blob=b"\x00\xff")
                        await a.send("config", pickle.dumps(bad))
                    elif m["do"] == "upload_bad":
                        # an index upload without usable content (field absent / not bytes)
                        if m.get("v", 0) == 0:
                            await a.send("upload_edb", None)
                        else:
                            await a.send("upload_edb", "not-bytes")
                    elif m["do"] == "config":
                        await a.send("config", pickle.dumps(C[m["c"]]), **(m.get("xf") or {}))
                    elif m["do"] == "upload":
                        await a.send("upload_edb", E[m["e"]], **(m.get("xf") or {}))
                    else:
                        # the digest is a client-chosen echo field: unique per request, the same for every request, or absent
                        mode = knobs.get("digest", "unique")
                        kw = {} if mode == "none" else {"token_digest": b"same" if mode == "same" else b"d%d%s" % (si, tag)}
                        await a.send("token", T[(m["key"], m["w"])], **kw)

                def accepts(m):
                    if m["do"] in ("config_bad", "upload_bad"):
                        return False
                    return (st == 0) if m["do"] == "config" else (st == 1) if m["do"] == "upload" else (st == 2)
                msgs = [step]
                burst = step.get("burst")
                if burst and accepts(step):
                    # pipelining: the next message is sent without waiting for the reply to this one (only behind a message the
                    # model accepts: a refused one makes the server drop the connection and whatever is queued on it)
                    msgs.append(burst)
                    probes["pipelined_pair"] = 1
                base = len(a.replies)
                for mi, m in enumerate(msgs):
                    await send(m, b"ab"[mi:mi + 1])
                for mi, m in enumerate(msgs):
                    mdo = m["do"]
                    exp = accepts(m)
                    await a.wait_change(lambda: len(a.replies) > base + mi, 30)
                    rep = a.replies[base + mi] if len(a.replies) > base + mi else None
                    ok_reply = rep is not None and rep[0] in ("ack", "result")
                    form = "ok" if ok_reply else "refused-msg" if rep is not None else "refused-closed" if a.closed_seen else "silent"
                    out["obs"].append((st, mdo + ("+" if mi else ""), form))
                    out["cover"][f"s{st}:{mdo}{'(pipelined)' if mi else ''}:{form}"] = 1
                    if mdo == "search" and st == 2 and edb == 2:
                        # the accepted "index" is not one: whatever the server answers (nothing, an error, a close), the state stays ready
                        # and the stored bytes stay what was accepted -- checked at the next connection and by the write-once check
                        probes["search_on_unparsable_index"] = 1
                        if not ok_reply:
                            break
                        continue
                    if (not ok_reply and exp and mi == 0 and len(msgs) == 2 and rep is None and a.closed_seen
                            and not self._accepts_after(msgs[0], msgs[1], st, edb)):
                        # the acknowledgement of an accepted request is lost when a refused request is pipelined right behind it
                        # (the server drops the connection before the queued reply leaves): applied but unacknowledged, which the
                        # property allows -- the state check at the next connection decides whether it really was applied
                        probes["ack_lost_behind_refused_pipelined_request"] = 1
                        ok_reply = True
                        rep = ("ack", {"config": "config", "upload": "upload_edb"}.get(mdo)) if mdo != "search" else None
                        if rep is None:
                            break
                    if ok_reply != exp:
                        viol.append(V("C10.step", "REFUSAL_MISMATCH", f"step {si}{' (pipelined second message)' if mi else ''}: {mdo} in model state {st}: server answered "
                                                                  f"'{form}', reference model says {'accepted' if exp else 'refused'}", site=mdo))
                        return
                    if ok_reply:
                        want_kind = {"config": ("ack", "config"), "upload": ("ack", "upload_edb")}.get(mdo)
                        if want_kind is not None and rep != want_kind:
                            viol.append(V("C10.step", "REFUSAL_MISMATCH", f"step {si}: {mdo} answered by {rep[:2]}"))
                            return
                        if mdo == "config":
                            st, cfg = 1, m["c"]
                            try:
                                with open(run.sse_path(SID, "config.json"), "rb") as f:
                                    run.accepted_files["config.json"] = f.read()
                            except FileNotFoundError:
                                viol.append(V("C10.step", "STATE_MISMATCH", f"step {si}: {mdo} was accepted but no config.json is stored", site=mdo))
                                return
                        elif mdo == "upload":
                            st, edb = 2, m["e"]
                            try:
                                with open(run.sse_path(SID, "edb"), "rb") as f:
                                    run.accepted_files["edb"] = f.read()
                            except FileNotFoundError:
                                viol.append(V("C10.step", "STATE_MISMATCH", f"step {si}: {mdo} was accepted but no edb is stored", site=mdo))
                                return
                        else:
                            if rep[0] != "result":
                                viol.append(V("C10.step", "REFUSAL_MISMATCH", f"step {si}: search answered by an acknowledgement"))
                                return
                            try:
                                got = fe.result_list(L, w["cfgobj"], rep[1])
                            except Exception as e:
                                viol.append(V("C10.search", "WRONG_RESULT", f"step {si}: result not decodable: {e!r}"))
                                return
                            wd = m["w"].encode()
                            want = DB[edb].get(wd, []) if m["key"] == edb else []
                            if m["key"] != edb:
                                probes["search_other_key"] = 1
                            if wd not in DB[edb]:
                                probes["search_absent_keyword"] = 1
                            same = (set(got) == set(want) and len(got) == len(want)) if isinstance(got, (set, frozenset)) else (list(got) == want)
                            if not same:
                                viol.append(V("C10.search", "WRONG_RESULT", f"step {si}: search(key{m['key']},{m['w']}) on accepted index e{edb} returned "
                                                                            f"{len(got)} ids, expected {len(want)} (ids differ)", site="search"))
                                return
                    else:
                        if mdo in ("config_bad", "upload_bad"):
                            probes["malformed_content_refused"] = 1
                        if mdo == "config":
                            probes["second_config_refused"] = 1
                        elif mdo == "upload" and st == 2:
                            probes["second_upload_refused"] = 1
                        elif mdo == "search":
                            probes["search_before_ready_refused"] = 1
                        break  # the server drops the connection with a refusal; nothing queued behind it is served
            if not run.check_write_once(si):
                return
            if a.closed_seen:
                probes["forced_reconnect"] = 1
                out["reconnects"] += 1
                await asyncio.sleep(knobs.get("forced_gap", 0))
                a = await connect(f"after step {si} ({do}) the server closed the connection; reconnect")
                if a is None:
                    return
        await a.close()
        run.seam.fail_read = None  # faults stop before the final look
        arm[0] = None
        await asyncio.sleep(3 * max(1.0, knobs.get("skew", 1.0)))
        out["reconnects"] += 1
        p = await connect("final probe")
        if p is not None:
            await p.close()
            await asyncio.sleep(3)
        if knobs.get("decoy") and not viol:
            # the other service of this server must be exactly where it was left: ready, answering from its own index
            d2 = fe.RawActor(run, "decoy-again", DECOY)
            await d2.open()
            await d2.wait_change(lambda: d2.init is not None, 30)
            if d2.init is None or d2.init.get("state") != 2:
                viol.append(V("C10.init", "STATE_MISMATCH", f"another service of the same server, left in the ready state, now reports {d2.init} "
                                                        f"(requests for one service id changed another)", site="decoy"))
                return
            await d2.send("token", w["T_decoy"], token_digest=b"decoy-again")
            await d2.wait_change(lambda: len(d2.results) > 0, 30)
            try:
                got = fe.result_list(L, w["cfgobj"], d2.results[-1]) if d2.results else None
            except Exception:
                got = None
            if got is None or len(got) != 3:
                viol.append(V("C10.search", "WRONG_RESULT", f"another service of the same server no longer answers from its own index "
                                                            f"({'no result' if got is None else len(got)})", site="decoy"))
                return
            await d2.close()
            await asyncio.sleep(2)

    @staticmethod
    def _accepts_after(m1, m2, st, edb=None):
        """does the reference model accept m2 right after accepting m1 in state st?"""
        st2 = {"config": 1, "upload": 2}.get(m1["do"], st)
        if m2["do"] == "search" and (m1.get("e") == 2 if m1["do"] == "upload" else edb == 2):
            return False  # a search on an unparsable index may end the connection
        if m2["do"] in ("config_bad", "upload_bad"):
            return False
        return (st2 == 0) if m2["do"] == "config" else (st2 == 1) if m2["do"] == "upload" else (st2 == 2)

    def simplifications(self, plan):
        k = plan["knobs"]
        for key, val in (("skew", 1.0), ("bufsize", 8192), ("scheme", "CJJ14.PiBas"), ("net", dict(lo=0.01, hi=0.01)), ("forced_gap", 0), ("decoy", False), ("gc_every", 0), ("digest", "unique"), ("sid_style", "hex"), ("read_fault", None), ("mtime_gran", None), ("clock_steps", None), ("cfg_variant", False)):
            if k.get(key) != val:
                yield dict(plan, knobs=dict(k, **{key: val}))
        steps = plan["steps"]
        for i, st in enumerate(steps):
            if st["do"] == "reconnect" and (st.get("abort") or st.get("gap")):
                yield dict(plan, steps=steps[:i] + [dict(st, abort=False, gap=0)] + steps[i + 1:])
            if st.get("burst"):
                yield dict(plan, steps=steps[:i] + [{k: v for k, v in st.items() if k != "burst"}] + steps[i + 1:])

    def finding_shape(self, plan, v):
        return plan["knobs"]["scheme"] + ":" + "-".join(s["do"][0] + str(s.get("c", s.get("e", s.get("w", "")))) for s in plan["steps"][:8])


PROPERTY = C10()
