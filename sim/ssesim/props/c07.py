"""C07 -- setup and search leave their inputs intact; searches repeat in any order.
History-only: the long-lived index object lives in the server process (and in the client); the simulator supplies
histories over one or several connections and reads the state behind the parties' backs."""
import asyncio
import copy
import pickle

from .. import core, fe, world
from .. import prop as P
from ..prop import V
from .c09 import GRID, LENS, same_result, C09


class C07(P.Property):
    pid = "C07"
    level = "exploration"
    mode = "frontend"
    tiers = {"quick": dict(runs=1600, budget_s=70), "thorough": dict(runs=50000, budget_s=800)}
    technique = ("deterministic simulation: seeded search histories (repetition, any order, present/absent keywords) against one long-lived "
                 "index, locally and inside the simulated server over one or several connections; state read behind the parties' backs")
    level_text = ("seeded exploration of setup + search histories (10-40 tokens with repetition; lists up to 1500) for all nine schemes and a "
                  "configuration grid: locally on the index object EDBSetup returned, locally on an index loaded from bytes with all results "
                  "kept, and inside the simulated server over 1-4 connections (decoy service, reused scheme object, key files of an earlier "
                  "run); inputs compared with deep copies, indexes compared byte for byte before/after, every answer compared with the "
                  "single-search answer on a pristine copy")
    level_note = ("no fault dimension: the property has none; the simulator only provides the long-lived shared party (server process) and "
                  "the histories; trusted: harness reach-ins connector._sse_service_manager._service_dict[sid].edb (exit 2 if renamed)")
    rule = ("history = 10..40 searches drawn with repetition from present/absent/near-miss keywords, cut into 1..4 consecutive connections; "
            "non-trivial = some keyword searched at least twice and at least two connections or a local replay; distinct = digest of "
            "(scheme, cfg index, db shape, history of keyword classes, cuts)")
    real_stub = dict(deployment="as C09; additionally the scheme API is called directly (local branch) on the same inputs")
    assumptions = ["a setup or search that raises ends that branch without a verdict (after checking that the inputs are intact)"]
    probe_names = ["scheme_" + s for s in fe.SCHEMES] + ["local_branch", "server_branch", "multi_connection", "repeat_keyword", "absent_keyword",
                                                          "server_index_compared", "nondefault_config", "decoy_service", "stored_key", "scheme_object_reused", "token_untouched", "token_reused", "stored_config", "kept_result_reread"]

    def setup(self):
        world.setup_frontend()
        self._c09 = C09()
        import json, os
        with open(os.path.join(os.path.dirname(__file__), "..", "..", "..", "fixtures", "keys.json")) as f:
            self.key_fixtures = json.load(f)["keys"]
        with open(os.path.join(os.path.dirname(__file__), "..", "..", "..", "fixtures", "configs.json")) as f:
            self.cfg_fixtures = json.load(f)["configs"]

    def gen(self, seed, tier):
        rng = P.stream(seed, "workload")
        scheme = rng.choice(fe.SCHEMES)
        ci = rng.randrange(len(GRID[scheme])) if rng.random() < 0.4 else 0
        L, cfg = fe.default_config(scheme)
        cfg.update(GRID[scheme][ci])
        db = self._c09.gen_db(rng, scheme, fe.id_size(cfg))
        kws = list(db)
        pool = kws + ["absent1", "absent2", (kws[0] + "x")[-32:] if len((kws[0] + "x").encode("utf-8")) <= 32 else "absent3", (kws[0][:-1] or "q")]
        pool = [w if w and w[0] != "\x00" else "q" + w[1:] for w in pool]
        small = scheme in ("CGKO06.SSE1", "CGKO06.SSE2")
        n = rng.randint(6, 14) if small else rng.randint(10, 40)
        steps = [{"w": rng.choice(pool)} for _ in range(n)]
        ncon = rng.choice([1, 2, 3, 4])
        cuts = sorted(rng.sample(range(1, n), min(ncon - 1, n - 1))) if ncon > 1 else []
        knobs = dict(scheme=scheme, cfg_index=ci, db=db, cuts=cuts, gap=rng.choice([0, 0.5, 1.5]), sse2_spare=rng.choice([0, 3, 10]),
                     net=rng.choice([dict(lo=0.001, hi=0.05), dict(lo=0.001, hi=0.05, seg=3), dict(lo=0.0005, hi=0.004)]),
                     skew=rng.choice([1.0, 1.0, 2.0]), bufsize=8192, decoy=rng.random() < 0.3, stored_key=rng.choice([None, None, 0, 1, 2]), reuse_scheme=rng.choice([None, None, None, "same_key", "other_key", "other_key_big", "same_key_big"]))
        knobs["stored_cfg"] = rng.random() < 0.35  # the configuration dictionary was written out earlier (a config.json), not derived from the running code's defaults
        for st in steps:
            u = rng.random()
            if u < 0.3:
                st["tok"] = "untouched"  # the token is not looked at before it is used (not serialised, not compared)
            elif u < 0.5:
                st["tok"] = "reused"  # ... and the same token object is used for a second search straight away
        return {"property": "C07", "seed": seed, "knobs": knobs, "steps": steps}

    def execute(self, plan):
        res = P.Result()
        knobs = plan["knobs"]
        out = dict(obs=[], probes={}, cover={})
        # ---- local branch: the scheme API on one long-lived index object
        world.seed_randomness(core.h64(plan["seed"], "local"))
        self._local(plan, out, res.violations)
        # ---- server branch
        run = fe.Run(plan["seed"], knobs)
        edb_writes = []

        def on_disk(rec):
            parts = rec["path"].split("/")
            if rec["role"] == "server" and len(parts) == 2 and (parts[1] == "edb" or parts[1].startswith("edb.")):
                edb_writes.append((rec["site"], rec["kind"]))
        run.seam.on_event = on_disk
        try:
            with world.Watchdog(300):
                try:
                    if not res.violations:
                        run.sim.run(self._server_branch(run, plan, out, res.violations))
                except (core.SimLimit, core.SimDeadlock) as e:
                    res.violations.append(V("C07", "HANG", f"run did not finish: {e}"))
            bad = [w for w in edb_writes if w[0] != "handle_upload_encrypted_database"]
            if bad:
                res.violations.append(V("C07.edb", "INPUT_MUTATED", f"the server's stored index was written outside the upload handler: {bad[:3]}", site="server-edb-file"))
            res.digest = P.digest_of((run.sim.digest(), out["obs"]))
            res.sim_seconds = run.sim.loop._vt
            res.events = run.sim.loop.steps
            res.counters = dict(run.sim.counters)
        finally:
            run.finish()
        res.probes = out["probes"]
        res.cover = out["cover"]
        res.inconclusive = out.get("inconclusive")
        ws = [s["w"] for s in plan["steps"]]
        res.shape = P.shape_of((knobs["scheme"], knobs["cfg_index"], sorted(len(v) for v in knobs["db"].values()), ws, knobs["cuts"]))
        res.nontrivial = len(set(ws)) < len(ws) and (len(knobs["cuts"]) > 0 or out["probes"].get("local_branch", 0) > 0)
        res.trace = dict(scheme=knobs["scheme"], cfg=GRID[knobs["scheme"]][knobs["cfg_index"]], history=ws[:40], cuts=knobs["cuts"], observed=out["obs"][:12])
        return res

    def _setup_inputs(self, plan):
        from toolkit.database_utils import convert_database_keyword_to_bytes
        knobs = plan["knobs"]
        scheme = knobs["scheme"]
        L, cfg = fe.default_config(scheme)
        if knobs.get("stored_cfg"):
            stored = copy.deepcopy(self.cfg_fixtures[scheme])
            stored.update({k: cfg[k] for k in ("param_n", "param_s", "param_dictionary_size") if k in cfg})
            cfg = stored
        cfg.update(GRID[scheme][knobs["cfg_index"]])
        db = convert_database_keyword_to_bytes(knobs["db"])
        if scheme == "CGKO06.SSE2":
            cfg["param_n"] = len({x for v in db.values() for x in v}) + knobs.get("sse2_spare", 0)  # a capacity, may be an over-estimate
        return L, cfg, db

    def _local(self, plan, out, viol):
        L, cfg, db = self._setup_inputs(plan)
        scheme = plan["knobs"]["scheme"]
        probes = out["probes"]
        probes["scheme_" + scheme] = 1
        if plan["knobs"]["cfg_index"]:
            probes["nondefault_config"] = 1
        if plan["knobs"].get("stored_cfg"):
            probes["stored_config"] = 1
        cfg_before, db_before = copy.deepcopy(cfg), copy.deepcopy(db)
        try:
            S = L.SSEScheme(cfg)
            K = None
            if plan["knobs"].get("stored_key") is not None and plan["knobs"]["cfg_index"] == 0:
                # a key file written by an earlier run of the client (fixtures/keys.json) instead of a fresh KeyGen()
                try:
                    K = L.SSEKey.deserialize(bytes.fromhex(self.key_fixtures[scheme][plan["knobs"]["stored_key"] % 3]), S.config)
                    probes["stored_key"] = 1
                except Exception:
                    K = None  # a format the current code no longer reads: not this property's business
            if K is None:
                K = S.KeyGen()
            kser = K.serialize()
            if plan["knobs"].get("reuse_scheme"):
                # the same scheme object and key served another index before (same keywords, other identifiers); that index is
                # dropped and collected before the index under test is built -- its answers must not come back
                probes["scheme_object_reused"] = 1
                mode = plan["knobs"]["reuse_scheme"]
                other = {w: [bytes(b ^ 0x5A for b in i) for i in ids] for w, ids in db.items()}  # (a bijection on identifiers: lists stay duplicate-free)
                if mode in ("other_key_big", "same_key_big") and scheme not in ("CGKO06.SSE1", "CGKO06.SSE2"):
                    # an index of another size class (e.g. pointer widths, level counts differ)
                    z_ = len(next(iter(db.values()))[0])
                    other[b"big-other"] = [(7000 + i).to_bytes(z_, "big") for i in range(600)]
                Kd = K if mode in ("same_key", "same_key_big") else S.KeyGen()
                Ed = S.EDBSetup(Kd, copy.deepcopy(other))
                first_answers = {}
                for w in list(other)[:6]:
                    first_answers[w] = S.Search(Ed, S.TokenGen(Kd, w)).get_result_list()
            E = S.EDBSetup(K, db)
            if plan["knobs"].get("reuse_scheme"):
                # the first index is still there and must still answer as before, although the object has built another one since
                for w, ans in first_answers.items():
                    again = S.Search(Ed, S.TokenGen(Kd, w)).get_result_list()
                    if not same_result(again, other[w]) or not same_result(again, ans):
                        viol.append(V("C07.repeat", "WRONG_RESULT", f"an index built earlier by the same scheme object answers {len(again)} identifiers for a keyword "
                                                                    f"with {len(other[w])} after the object built another index", site="local-search-first-index"))
                        break
                del Ed
                world.gc_point()
        except Exception as e:
            out["inconclusive"] = f"setup refused ({type(e).__name__})"
            E = None
        if cfg != cfg_before:
            viol.append(V("C07.inputs", "INPUT_MUTATED", f"the configuration dictionary passed to SSEScheme changed: {sorted(set(cfg) ^ set(cfg_before)) or 'values differ'}", site="config"))
        if db != db_before:
            viol.append(V("C07.inputs", "INPUT_MUTATED", "the database passed to EDBSetup changed (keywords %d -> %d, postings %d -> %d)" % (
                len(db_before), len(db), sum(map(len, db_before.values())), sum(map(len, db.values()))), site="database"))
        if E is None or viol:
            return
        if K.serialize() != kser:
            viol.append(V("C07.inputs", "INPUT_MUTATED", "the key changed during EDBSetup", site="key"))
            return
        probes["local_branch"] = 1
        ser0 = E.serialize()
        pristine = lambda: L.SSEEncryptedDatabase.deserialize(ser0, S.config)
        answers = {}
        kept_results = []
        for i, st in enumerate(plan["steps"]):
            w = st["w"].encode("utf-8")
            how = st.get("tok")
            try:
                tk = S.TokenGen(K, w)
                if how:
                    # token generation is deterministic in (key, keyword): a second token stands for "the token before the search"
                    probes["token_" + how] = 1
                    tser = S.TokenGen(K, w).serialize()
                else:
                    tser = tk.serialize()
                robj = S.Search(E, tk)
                got = robj.get_result_list()
                kept_results.append((i, robj, list(got)))  # the caller keeps its result objects: what they say must not change later
                again = S.Search(E, tk).get_result_list() if how == "reused" else None
            except Exception as e:
                if how:
                    try:  # does the same search work with a token that was serialised first, on an untouched copy of the index?
                        tk0 = S.TokenGen(K, w)
                        tk0.serialize()
                        S.Search(pristine(), tk0)
                    except Exception:
                        out["inconclusive"] = f"local search raised {type(e).__name__}"
                        break
                    viol.append(V("C07.token", "INPUT_MUTATED", f"search {i}: a search with a token object that was {how} raised {type(e).__name__}", site="token"))
                    return
                out["inconclusive"] = f"local search raised {type(e).__name__}"
                break
            if again is not None and not same_result(again, got):
                viol.append(V("C07.token", "INPUT_MUTATED", f"search {i}: the same token object answered {len(got)} identifiers, then {len(again)}", site="token"))
                return
            if tk.serialize() != tser:
                viol.append(V("C07.token", "INPUT_MUTATED", f"search {i}: the token changed during Search", site="token"))
                return
            if w not in answers:
                try:
                    tk2 = L.SSEToken.deserialize(tser, S.config)
                    answers[w] = S.Search(pristine(), tk2).get_result_list()
                except Exception as e:
                    out["inconclusive"] = f"single search on a pristine copy raised {type(e).__name__}"
                    break
            else:
                probes["repeat_keyword"] = 1
            if not same_result(got, answers[w]):
                viol.append(V("C07.repeat", "WRONG_RESULT", f"local search {i} of {st['w']!r}: {len(got)} identifiers, the single-search answer on a pristine "
                                                            f"copy has {len(answers[w])} (occurrence-dependent answer)", site="local-search"))
                return
            if not same_result(got, db.get(w, [])):
                viol.append(V("C07.repeat", "WRONG_RESULT", f"local search {i} of {st['w']!r} differs from the database", site="local-search"))
                return
        if E.serialize() != ser0:
            viol.append(V("C07.edb", "INPUT_MUTATED", "the encrypted database object changed during the search history (serialization differs)", site="local-edb"))
        for i, robj, was in kept_results:
            try:
                now = robj.get_result_list()
            except Exception as e:
                now = e
            if isinstance(now, Exception) or not same_result(now, was) or len(now) != len(was):
                probes["kept_result_reread"] = 1
                viol.append(V("C07.repeat", "WRONG_RESULT", f"the result object of search {i} said {len(was)} identifiers when it was returned and "
                                                            f"{len(now) if not isinstance(now, Exception) else repr(now)[:40]} after the later searches "
                                                            f"(searches share state)", site="local-result-object"))
                break
        if kept_results:
            probes["kept_result_reread"] = 1
        if not viol and not out.get("inconclusive"):
            # the same history once more on an index that was loaded from its serialized form, keeping every result alive
            E2 = pristine()
            ser2 = E2.serialize()
            kept = []
            try:
                for st in plan["steps"]:
                    kept.append(S.Search(E2, S.TokenGen(K, st["w"].encode("utf-8"))))
            except Exception as e:
                out["inconclusive"] = f"search on a deserialized index raised {type(e).__name__}"
            else:
                if E2.serialize() != ser2:
                    viol.append(V("C07.edb", "INPUT_MUTATED", "the serialization of an index loaded from bytes changed during the search history "
                                                              "(results kept alive)", site="local-edb-deserialized"))
            del kept
        if K.serialize() != kser:
            viol.append(V("C07.inputs", "INPUT_MUTATED", "the key changed during the search history", site="key"))

    async def _server_branch(self, run, plan, out, viol):
        import frontend.server.connector as conn
        knobs = plan["knobs"]
        L, cfg, db = self._setup_inputs(plan)
        probes = out["probes"]
        run.boot_server()
        await asyncio.sleep(0.01)
        if knobs.get("decoy"):
            # another service of the same scheme (other configuration, other database) searched first on the same server process
            if not await self._c09._decoy(run, knobs["scheme"], knobs, probes):
                out["inconclusive"] = "decoy service could not be set up"
                return
        host = fe.ClientHost(run)
        db_before = copy.deepcopy(db)
        sid = None
        for step in ("create", "gen_key", "encrypt", "upload_config", "upload_index"):
            if step == "create":
                r = await host.create(copy.deepcopy(cfg))
            elif step == "gen_key":
                r = await host.gen_key(sid, fresh=False)
            elif step == "encrypt":
                r = await host.encrypt(sid, db, fresh=False)
                if db != db_before:
                    viol.append(V("C07.inputs", "INPUT_MUTATED", "the database handed to the client's encrypt-database changed", site="database"))
                    return
                try:
                    with open(run.sse_path("client", sid, "edb"), "rb") as f:
                        e0 = f.read()
                except Exception:
                    e0 = None
            elif step == "upload_config":
                r = await host.upload_config(sid, fresh=False, keep=True)
            else:
                r = await host.upload_index(sid, fresh=False, keep=True)
            if r[0] != "ok":
                out["inconclusive"] = out.get("inconclusive") or f"workflow step {step} refused ({type(r[1]).__name__ if r[0] == 'exc' else r[0]})"
                return
            if step == "create":
                sid = r[1]
        await host.drop()
        probes["server_branch"] = 1
        cfgobj = L.SSEConfig(copy.deepcopy(cfg))
        pristine_ser = L.SSEEncryptedDatabase.deserialize(e0, cfgobj).serialize()
        answers = {}
        cuts = set(knobs["cuts"])
        if cuts:
            probes["multi_connection"] = 1

        def server_index():
            mgr = conn._sse_service_manager
            svc = mgr._service_dict.get(sid)
            return None if svc is None or svc.edb is None else svc.edb.serialize()

        async def end_connection(i):
            cur = server_index()
            if cur is not None:
                probes["server_index_compared"] = 1
                if cur != pristine_ser:
                    viol.append(V("C07.edb", "INPUT_MUTATED", f"the server's in-memory index differs from the uploaded one after search {i} "
                                                              f"(serialization {len(cur)} vs {len(pristine_ser)} bytes)", site="server-edb"))
                    return False
            await host.drop()
            await asyncio.sleep(knobs.get("gap", 0))
            return True

        for i, st in enumerate(plan["steps"]):
            if i in cuts:
                if not await end_connection(i):
                    return
            w = st["w"].encode("utf-8")
            if w not in db:
                probes["absent_keyword"] = 1
            r = await host.search(sid, w, fresh=host.obj is None, keep=True)
            if r[0] != "ok":
                out["inconclusive"] = f"search raised {type(r[1]).__name__ if r[0] == 'exc' else r[0]}"
                return
            box, s = r[1]
            if len(box) != 1:
                viol.append(V("C07.repeat", "WRONG_RESULT", f"search {i}: callback called {len(box)} times", site="server-search"))
                return
            got = fe.result_list(s.sse_module_loader, s.config_object, box[0])
            if w in answers:
                probes["repeat_keyword"] = 1
                if not same_result(got, answers[w]):
                    viol.append(V("C07.repeat", "WRONG_RESULT", f"search {i} of {st['w']!r} through the server: {len(got)} identifiers, an earlier occurrence "
                                                                f"returned {len(answers[w])}", site="server-search"))
                    return
            else:
                answers[w] = got
            if not same_result(got, db.get(w, [])):
                viol.append(V("C07.repeat", "WRONG_RESULT", f"search {i} of {st['w']!r} through the server differs from the database ({len(got)} vs {len(db.get(w, []))})", site="server-search"))
                return
            out["obs"].append((st["w"] in knobs["db"], len(got)))
        await end_connection(len(plan["steps"]))
        await asyncio.sleep(3)

    def simplifications(self, plan):
        k = plan["knobs"]
        for key, val in (("skew", 1.0), ("net", dict(lo=0.01, hi=0.01)), ("cuts", []), ("gap", 0), ("cfg_index", 0), ("decoy", False), ("stored_key", None), ("reuse_scheme", None)):
            if k.get(key) != val:
                yield dict(plan, knobs=dict(k, **{key: val}))
        db = k["db"]
        if len(db) > 1:
            for kw in list(db):
                yield dict(plan, knobs=dict(k, db={a: b for a, b in db.items() if a != kw}))
        for kw, ids in db.items():
            if len(ids) > 1:
                yield dict(plan, knobs=dict(k, db=dict(db, **{kw: ids[:len(ids) // 2]})))

    def finding_shape(self, plan, v):
        return plan["knobs"]["scheme"]


PROPERTY = C07()
