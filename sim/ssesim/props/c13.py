"""C13 -- a crash between persistence steps never leaves a service unusable."""
import asyncio
import copy
import json
import os
import pickle

from .. import core, fe, world
from .. import prop as P
from ..prop import V, hx, unhx

ENUM_SCHEMES = ["CJJ14.PiBas", "CJJ14.Pi2Lev", "DP17.Pi"]
ENUM_BUFS = [8192, 16]
REF_DB = {hx(b"kw1"): ["A", "B"], hx(b"kw2"): ["C"]}  # identifiers are expanded to the scheme's identifier size
MAX_OPS = 24
BIG_DB = {"big": 16000}  # one keyword with 16 000 postings: a PiBas index of about 1.4 MB


def expand_db(dbspec, z):
    if "big" in dbspec and isinstance(dbspec["big"], int):
        return {b"big-keyword": [i.to_bytes(z, "big") for i in range(1, dbspec["big"] + 1)], b"kw2": [b"\xee" * z]}
    out = {}
    for k, ids in dbspec.items():
        out[unhx(k)] = [(i.encode() * z)[:z] if not isinstance(i, (bytes, bytearray)) and len(i) < 3 else unhx(i) for i in ids]
    return out


class C13(P.Property):
    pid = "C13"
    level = "fault_enumeration"
    mode = "frontend"
    exhaustive = True
    tiers = {"quick": dict(runs=2400, budget_s=60), "thorough": dict(runs=150000, budget_s=800)}
    technique = ("deterministic simulation with crash injection at every file-system mutation: the component is killed immediately before "
                 "and after each mutation system call of every persisting handler (exhaustive over the reference workflow), restarted, "
                 "and a resume driver must finish the workflow; plus seeded multi-crash runs")
    level_text = ("every single crash point (before/after each mkdir/open/write/unlink/replace issued by server and client while running "
                  "the reference workflow, for 3 schemes x 2 write-buffer sizes; thorough: all nine schemes, a 1.4 MB index, and every ordered "
                  "pair of crash points for one scheme) is enumerated and executed; multi-crash schedules (1-3 crashes, incl. during "
                  "recovery and of both components) are sampled by seed")
    level_note = ("crash = process death at system-call granularity (completed calls durable, Python-level buffers lost); no power-loss "
                  "model; crash points are those of the simulated pure-Python io stack (any legal system-call sequence is a legal place "
                  "to die); trusted: simulator, resume driver and oracle in props/c13.py")
    rule = ("enumerated part: baseline run of the reference workflow records the disk-mutation events of role server and role client; one "
            "run per (role, before|after, event index); seeded part: 1-3 crash points drawn per run with scheme/db/net/skew/buffer "
            "randomised; non-trivial = at least one crash fired while a service existed; distinct = digest of (crash kind, path, "
            "handler site)* + recovery operation sequence")
    real_stub = dict(deployment="real client Service + real server + websockets on the simulated loop/TCP; FS mutation seam cuts the process "
                                "at the chosen call; restart = new simulated process on the same directory with fresh in-memory state; wall clock (time.time) and file time stamps (os.stat) simulated: follow the virtual clock, steppable, per-run stamp granularity")
    assumptions = ["an operation during which a crash fires may fail (timeout, closed connection): that is the fault, not a violation",
                   "a create-service that died before returning its sid is retried as a new service; leftover directories / *.tmp files are allowed"]
    probe_names = ["crash_meta_empty_or_absent", "crash_dir_without_files", "crash_between_index_and_state", "crash_client_between_key_and_flag",
                   "crash_after_ack_sent_before_client_handled", "crash_during_recovery", "server_crash", "client_crash", "both_crashed",
                   "client_timeout_60s"]

    def setup(self):
        world.setup_frontend()
        self._baseline = {}

    # ------------------------------------------------------------------ plans
    def base_plan(self, scheme, bufsize, crashes, seed=7, net=None, skew=1.0, db=None):
        return {"property": "C13", "seed": seed, "knobs": dict(scheme=scheme, bufsize=bufsize, net=net or dict(lo=0.001, hi=0.02), skew=skew,
                                                                db=db or REF_DB), "steps": crashes}

    def enumerate(self, tier):
        plans = []
        for scheme in ENUM_SCHEMES:
            for buf in ENUM_BUFS:
                key = (scheme, buf)
                if key not in self._baseline:
                    res = self.execute(self.base_plan(scheme, buf, []))
                    if res.violations:
                        # the fault-free reference workflow itself fails: report that instead of enumerating
                        plans.append(self.base_plan(scheme, buf, []))
                        self._baseline[key] = {}
                        continue
                    self._baseline[key] = dict(res.extra["role_k"])
                for role, n in sorted(self._baseline[key].items()):
                    for k in range(n):
                        for when in ("before", "after"):
                            plans.append(self.base_plan(scheme, buf, [{"role": role, "when": when, "k": k}]))
        # the reference workflow once more with create-service done through the command layer (service name, alias file) and a
        # redundant generate-key after encrypt-database
        key = ("CJJ14.PiBas", 8192, "named")
        if key not in self._baseline:
            p0 = self.base_plan("CJJ14.PiBas", 8192, [])
            p0["knobs"]["named_create"] = True
            p0["knobs"]["redo"] = True
            res = self.execute(p0)
            self._baseline[key] = {} if res.violations else dict(res.extra["role_k"])
            if res.violations:
                plans.append(p0)
        for k in range(self._baseline[key].get("client", 0)):
            for when in ("before", "after"):
                p1 = self.base_plan("CJJ14.PiBas", 8192, [{"role": "client", "when": when, "k": k}])
                p1["knobs"]["named_create"] = True
                p1["knobs"]["redo"] = True
                plans.append(p1)
        if tier == "thorough":
            # the single-crash enumeration for the other six schemes as well (default buffer size)
            for scheme in [x for x in fe.SCHEMES if x not in ENUM_SCHEMES]:
                key = (scheme, 8192)
                if key not in self._baseline:
                    res = self.execute(self.base_plan(scheme, 8192, []))
                    self._baseline[key] = {} if res.violations else dict(res.extra["role_k"])
                    if res.violations:
                        plans.append(self.base_plan(scheme, 8192, []))
                for role, n in sorted(self._baseline[key].items()):
                    for k in range(n):
                        for when in ("before", "after"):
                            plans.append(self.base_plan(scheme, 8192, [{"role": role, "when": when, "k": k}]))
            plans.extend(self._enumerate_pairs("CJJ14.PiBas", 8192))
            plans.extend(self._enumerate_big())
        return plans

    def _enumerate_big(self):
        """thorough tier: the single-crash enumeration once more with an index of about 1.4 MB (code paths that only large
        payloads take: chunked writes, frames beyond 1 MiB)"""
        key = ("CJJ14.PiBas", 8192, "big")
        if key not in self._baseline:
            res = self.execute(self.base_plan("CJJ14.PiBas", 8192, [], db=BIG_DB))
            self._baseline[key] = {} if res.violations else dict(res.extra["role_k"])
            if res.violations:
                return [self.base_plan("CJJ14.PiBas", 8192, [], db=BIG_DB)]
        plans = []
        for role, n in sorted(self._baseline[key].items()):
            for k in range(n):
                for when in ("before", "after"):
                    plans.append(self.base_plan("CJJ14.PiBas", 8192, [{"role": role, "when": when, "k": k}], db=BIG_DB))
        return plans

    def _enumerate_pairs(self, scheme, buf):
        """thorough tier: every ordered pair of crash points of the reference workflow (second crash anywhere after the first in the
        same role, incl. inside the recovery, or anywhere in the other role) for one scheme and buffer size"""
        plans = []
        base = self._baseline.get((scheme, buf)) or {}
        for role, n in sorted(base.items()):
            for k in range(n):
                for when in ("before", "after"):
                    c1 = {"role": role, "when": when, "k": k}
                    res = self.execute(self.base_plan(scheme, buf, [c1]))
                    if res.violations:
                        continue  # reported by the single-crash enumeration already
                    total = res.extra.get("role_k", {})
                    for role2, n2 in sorted(total.items()):
                        lo = k + 1 if role2 == role else 0
                        for k2 in range(lo, n2):
                            for when2 in ("before", "after"):
                                plans.append(self.base_plan(scheme, buf, [c1, {"role": role2, "when": when2, "k": k2}]))
        return plans

    def gen(self, seed, tier):
        rng = P.stream(seed, "workload")
        scheme = rng.choice(fe.SCHEMES)
        z = fe.id_size(fe.default_config(scheme)[1])
        db = {}
        c = 0
        for i in range(rng.randint(1, 3)):
            ids = []
            for _ in range(rng.randint(1, 3)):
                c += 1
                ids.append(hx(c.to_bytes(z, "big")))
            db[hx(b"k%d" % i)] = ids
        if c == 1:
            db[hx(b"kx")] = [hx((99).to_bytes(z, "big"))]
        buf = rng.choice([8192, 8192, 256, 16])
        hi = {8192: dict(server=40, client=60), 256: dict(server=80, client=120), 16: dict(server=400, client=600)}[buf]
        crashes = []
        for _ in range(rng.choice([1, 1, 2, 2, 3])):
            role = rng.choice(["server", "client"])
            crashes.append({"role": role, "when": rng.choice(["before", "after"]), "k": rng.randrange(hi[role])})
        named = rng.random() < 0.3
        pl = self.base_plan(scheme, buf, crashes, seed=seed, net=rng.choice([dict(lo=0.001, hi=0.05), dict(lo=0.001, hi=0.05, seg=3), dict(lo=0.01, hi=0.3, seg=2)]),
                              skew=rng.choice([1.0, 1.0, 0.5, 2.0]), db=db)
        pl["knobs"]["named_create"] = named
        pl["knobs"]["redo"] = rng.random() < 0.3
        if rng.random() < 0.25:
            pl["knobs"]["mtime_gran"] = rng.choice([1, 2])  # coarse file time stamps
        if rng.random() < 0.15:
            pl["knobs"]["reboot_clock"] = rng.choice([-3600.0, -5.0, -3 * 86400.0, 3600.0, 9 * 86400.0])  # wall clock after the first restart
        return pl

    # ------------------------------------------------------------------ execution
    def execute(self, plan):
        res = P.Result()
        knobs = plan["knobs"]
        run = fe.Run(plan["seed"], knobs)
        run.seam.crash_at = [[c["role"], c["when"], c["k"]] for c in plan["steps"]]
        out = dict(ops=[], probes={}, crash_recs=[])

        def on_disk(rec):
            if rec.get("crash"):
                out["crash_recs"].append(dict(rec))
        run.seam.on_event = on_disk
        try:
            with world.Watchdog(600):
                try:
                    run.sim.run(self._driver(run, plan, out, res.violations))
                except core.SimLimit as e:
                    res.violations.append(V("C13", "HANG", f"run did not finish: {e}"))
                except core.SimDeadlock as e:
                    res.violations.append(V("C13", "HANG", f"deadlock: {e}"))
            res.digest = run.sim.digest()
            res.sim_seconds = run.sim.loop._vt
            res.events = run.sim.loop.steps
            res.counters = dict(run.sim.counters)
            res.extra["role_k"] = dict(run.sim.role_k)
        finally:
            run.finish()
        fired = out["crash_recs"]
        for v in res.violations:
            if v.get("site") is None and fired:
                v["site"] = f"{fired[-1]['role']}:{fired[-1]['site']}"
        res.probes = out["probes"]
        res.inconclusive = out.get("inconclusive")
        res.cover = {f"{r['role']}:{r['site']}:{r['kind']}:{r['path'].rsplit('/', 1)[-1][:14]}:{r['crash']}": 1 for r in fired}
        res.shape = P.shape_of(([(r["role"], r["site"], r["kind"], r["path"].rsplit("/", 1)[-1], r["crash"], r["k"]) for r in fired], out["ops"], knobs["scheme"], knobs["bufsize"]))
        res.nontrivial = bool(fired)
        res.trace = dict(scheme=knobs["scheme"], bufsize=knobs["bufsize"], crashes=[dict(role=r["role"], when=r["crash"], k=r["k"], call=r["kind"], path=r["path"][-24:], site=r["site"]) for r in fired],
                         operations=out["ops"])
        return res

    async def _driver(self, run, plan, out, viol):
        knobs = plan["knobs"]
        scheme = knobs["scheme"]
        L, cfg0 = fe.default_config(scheme)
        z = fe.id_size(cfg0)
        db = expand_db(knobs["db"], z)
        if scheme == "CGKO06.SSE2":
            cfg0["param_n"] = len({x for v in db.values() for x in v})
        probes = out["probes"]
        seam = run.seam
        nproc = [0]
        host = fe.ClientHost(run, "client0")
        sid = None
        srv_state = 0  # highest server state known to be acknowledged / reported
        done = False
        redo_done = [False]
        loop = asyncio.get_event_loop()
        last_crash_t = 0.0

        def fired():
            return len(seam.fired)

        def note_crash_probes():
            for r in out["crash_recs"]:
                base = r["path"].rsplit("/", 1)[-1]
                if r["role"] == "server":
                    probes["server_crash"] = 1
                else:
                    probes["client_crash"] = 1
                if base.startswith("service_meta") and r["kind"].startswith("open"):
                    probes["crash_meta_empty_or_absent"] = 1
                if r["kind"] == "mkdir" and r["crash"] == "after":
                    probes["crash_dir_without_files"] = 1
                if r["role"] == "server" and r["site"] == "handle_upload_encrypted_database" and base.startswith("service_meta") and r["crash"] == "before" and r["kind"].startswith("open"):
                    probes["crash_between_index_and_state"] = 1
                if r["role"] == "client" and r["site"] == "handle_create_key" and base.startswith("service_meta"):
                    probes["crash_client_between_key_and_flag"] = 1
                if r["role"] == "client" and r["site"] in ("handle_upload_config_echo", "handle_upload_encrypted_database_echo"):
                    probes["crash_after_ack_sent_before_client_handled"] = 1
            if {r["role"] for r in out["crash_recs"]} == {"server", "client"}:
                probes["both_crashed"] = 1

        run.boot_server()
        await asyncio.sleep(0.01)
        for it in range(MAX_OPS):
            f0 = fired()
            # --- restart whatever is dead
            if not run.server.alive or not host.proc.alive:
                d = knobs.get("reboot_clock")
                if d and not out.get("clock_stepped"):
                    # the machine comes back with another idea of the time (RTC off, no time sync yet): time.time() and new file stamps jump
                    out["clock_stepped"] = True
                    run.wall_off += d
                    run.sim.count("clock_step_back" if d < 0 else "clock_step_forward")
            if not run.server.alive:
                await asyncio.sleep(0.05)
                run.boot_server()
                await asyncio.sleep(0.01)
            if not host.proc.alive:
                nproc[0] += 1
                host.restart("client%d" % nproc[0])
            if f0 and out.get("recovering") is None:
                out["recovering"] = it
            # --- what does the server say?
            echo = None
            if sid is not None:
                pr = fe.RawActor(run, "probe%d" % it, sid)
                try:
                    await pr.open()
                    await pr.wait_change(lambda: pr.init is not None, 30)
                except Exception as e:
                    out["probe_err"] = repr(e)
                echo = pr.init
                await pr.close()
                if echo is None:
                    if fired() != f0:
                        out["ops"].append("probe:crashed")
                        continue
                    viol.append(V("C13.a", "UNUSABLE", f"after restart a new connection for the service got no init echo within 30 s "
                                                       f"({out.get('probe_err', 'connection closed by the server' if pr.closed_seen else 'silence')})"))
                    return
                s = echo.get("state")
                disk = self._server_disk_state(run, sid)
                if s not in (srv_state, srv_state + 1) or s > 2:
                    viol.append(V("C13.a", "STATE_MISMATCH", f"init echo reports state {s}; the state before the interrupted step was {srv_state}"))
                    return
                if disk is not None and disk != s and fired() == f0:
                    # a request of an earlier (dead) client may still have been in flight: let things settle and look again
                    await asyncio.sleep(5)
                    pr2 = fe.RawActor(run, "probe%d-b" % it, sid)
                    try:
                        await pr2.open()
                        await pr2.wait_change(lambda: pr2.init is not None, 30)
                    except Exception:
                        pass
                    s2 = (pr2.init or {}).get("state")
                    await pr2.close()
                    disk = self._server_disk_state(run, sid)
                    if fired() == f0 and (s2 is None or disk != s2):
                        viol.append(V("C13.a", "STATE_MISMATCH", f"init echo reports state {s2} but service_meta on disk says {disk} (after settling)"))
                        return
                    if s2 is not None:
                        s = s2
                srv_state = s
            # --- client view (a fresh client object must always be constructible)
            flags = None
            if sid is not None:
                r = await host.call(self._client_view, sid)
                if r[0] == "died":
                    out["ops"].append("view:crashed")
                    continue
                if r[0] == "exc":
                    viol.append(V("C13.d", "UNUSABLE", f"constructing a client Service for the service raises {r[1]!r:.100}"))
                    return
                flags, problems = r[1]
                if problems:
                    viol.append(V("C13.d", "STATE_MISMATCH", f"client flags are inconsistent with the files present: {problems}"))
                    return
            # --- next step of the workflow
            if sid is None and knobs.get("named_create"):
                opname, coro = "create", host.call(self._create_by_name, cfg0, "c13 service")
            elif sid is None:
                opname, coro = "create", host.create(copy.deepcopy(cfg0))
            elif not flags["kc"]:
                opname, coro = "gen_key", host.gen_key(sid)
            elif not flags["de"] and srv_state < 2:
                opname, coro = "encrypt", host.encrypt(sid, copy.deepcopy(db))
            elif knobs.get("redo") and not redo_done[0] and srv_state == 0:
                # the user runs generate-key once more although it is done: refused today (and then nothing is written); if a
                # version accepts it, whatever it writes is a set of crash points like any other
                redo_done[0] = True
                opname, coro = "redo_gen_key", host.gen_key(sid)
            elif srv_state == 0:
                opname, coro = "upload_config", host.upload_config(sid)
            elif srv_state == 1:
                opname, coro = "upload_index", host.upload_index(sid)
            else:
                opname, coro = "searches", self._searches(host, sid, db)
            t_op = loop.time()
            r = await coro
            crashed_during = fired() != f0
            if crashed_during:
                last_crash_t = loop.time()
                if out.get("recovering") is not None:
                    probes["crash_during_recovery"] = 1
            if r[0] == "exc" and isinstance(r[1], (asyncio.TimeoutError, TimeoutError)) and loop.time() - t_op >= 59:
                probes["client_timeout_60s"] = 1
            status = "ok" if r[0] == "ok" else "died" if r[0] == "died" else "failed:" + type(r[1]).__name__
            out["ops"].append(f"{opname}:{status}" + ("*" if crashed_during else ""))
            if r[0] == "ok":
                if opname == "create":
                    sid = r[1]
                elif opname in ("upload_config", "upload_index"):
                    box = r[1][0]
                    ack = pickle.loads(box[0]) if box else None
                    if not (isinstance(ack, dict) and ack.get("ok") is True):
                        if not crashed_during:
                            viol.append(V("C13.b", "UNUSABLE", f"{opname} returned without an acknowledgement ({ack!r:.60}) although no crash hit it"))
                            return
                    else:
                        srv_state = max(srv_state, 1 if opname == "upload_config" else 2)
                elif opname == "searches":
                    bad = r[1]
                    if bad:
                        viol.append(V("C13.c", "WRONG_RESULT", f"final searches after recovery: {bad}"))
                        return
                    done = True
                    break
            elif opname == "redo_gen_key":
                pass  # a refusal of the redundant step is the expected answer
            elif not crashed_during and opname == "encrypt" and self._scheme_refuses(L, cfg0, db, r[1]):
                out["inconclusive"] = f"scheme {scheme} itself refuses the database ({type(r[1]).__name__}): not a crash-consistency question"
                note_crash_probes()
                return
            elif not crashed_during:
                viol.append(V("C13.b", "UNUSABLE", f"{opname} failed with {r[1]!r:.120} although no crash hit it (server state {srv_state}, client flags {flags})"))
                return
            if loop.time() - last_crash_t > 600 and not seam.crash_at:
                break
        note_crash_probes()
        if not done and not viol:
            viol.append(V("C13.b", "HANG", f"the resume driver did not complete the workflow within {MAX_OPS} operations: {out['ops']}"))
        await asyncio.sleep(3)

    def _create_by_name(self, cfg0, sname):
        """create-service the documented way (frontend/client/commands.py, with a service name), in the client process; when the name
        already leads to a service (an earlier attempt got that far before it died) that service is the one"""
        import contextlib
        import importlib
        import io
        import frontend.client.services.service_name_handler as snh
        import frontend.client.commands as cmds
        snh = importlib.reload(snh)
        cmds = importlib.reload(cmds)
        try:
            return snh.get_service_id_by_sname(sname)
        except KeyError:
            pass
        indir = os.path.join(world.scratch_root(), "client-input")
        os.makedirs(indir, exist_ok=True)
        cfg_path = os.path.join(indir, "c13-config.json")
        with open(cfg_path, "w") as f:
            json.dump(cfg0, f)
        buf = io.StringIO()
        with contextlib.redirect_stdout(buf):
            cmds.create_service(cfg_path, sname)
        if "error" in buf.getvalue().lower():
            raise RuntimeError("create-service: " + buf.getvalue().strip()[-160:])
        return importlib.reload(snh).get_service_id_by_sname(sname)

    def _scheme_refuses(self, L, cfg0, db, exc):
        try:
            S = L.SSEScheme(copy.deepcopy(cfg0))
            S.EDBSetup(S.KeyGen(), copy.deepcopy(db))
        except Exception as e2:
            return type(e2) is type(exc)
        return False

    def _client_view(self, sid):
        """in the client process: construct a fresh client object from disk and compare its flags with the files"""
        import frontend.client.services.service as csvc
        s = csvc.Service(sid)
        bits = s.get_current_service_state()
        f = dict(cc=bool(bits & 1), cu=bool(bits & 2), kc=bool(bits & 4), de=bool(bits & 8), du=bool(bits & 16))
        d = os.path.join(world.sse_dir(), "client", sid)
        problems = []
        if not f["cc"]:
            problems.append("a service whose creation returned a sid has no config-created flag")
        else:
            try:
                with open(os.path.join(d, "config.json")) as fh:
                    json.load(fh)
            except Exception as e:
                problems.append(f"config flag set but config.json unusable: {e!r:.60}")
        if f["kc"] and not os.path.exists(os.path.join(d, "key")):
            problems.append("key flag set but no key file")
        if f["de"] and not f["du"] and not os.path.exists(os.path.join(d, "edb")):
            # the upload flag is re-synchronised from the server on connect; the local index may only be missing if the server has it
            if self._server_disk_state_static(sid) != 2:
                problems.append("encrypted flag set, not uploaded, but no local index")
        return f, problems

    def _server_disk_state_static(self, sid):
        try:
            with open(os.path.join(world.sse_dir(), sid, "service_meta"), "rb") as fh:
                return pickle.load(fh).get("state")
        except Exception:
            return None

    def _server_disk_state(self, run, sid):
        return self._server_disk_state_static(sid)

    async def _searches(self, host, sid, db):
        bad = []
        for w in list(db) + [b"absent-keyword"]:
            r = await host.search(sid, w)
            if r[0] == "died":
                return r
            if r[0] != "ok":
                return r
            box, s = r[1]
            if not box:
                bad.append(f"search({w!r}): callback received nothing")
                continue
            got = fe.result_list(s.sse_module_loader, s.config_object, box[0])
            want = db.get(w, [])
            same = (set(got) == set(want) and len(got) == len(want)) if isinstance(got, (set, frozenset)) else list(got) == want
            if not same:
                bad.append(f"search({w!r}) delivered {len(got)} ids, expected {len(want)}")
        return ("ok", bad)

    # ------------------------------------------------------------------ minimisation
    def simplifications(self, plan):
        k = plan["knobs"]
        for key, val in (("skew", 1.0), ("net", dict(lo=0.001, hi=0.02)), ("db", REF_DB), ("named_create", False), ("redo", False), ("mtime_gran", None), ("reboot_clock", None)):
            if k.get(key) != val:
                yield dict(plan, knobs=dict(k, **{key: val}))
        if k["scheme"] != "CJJ14.PiBas":
            yield dict(plan, knobs=dict(k, scheme="CJJ14.PiBas", db=REF_DB))

    def finding_shape(self, plan, v):
        return ",".join(f"{c['role']}:{c['when']}:{c['k']}" for c in plan["steps"][:3]) + f"@{plan['knobs']['scheme']}:{plan['knobs']['bufsize']}"


PROPERTY = C13()
