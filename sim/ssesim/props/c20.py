"""C20 -- persistent byte dictionaries vs dict model; sync/close/reopen as the restart."""
import os
import shutil

from .. import prop as P
from ..prop import V, hx, unhx

KEYS = [b"k0", b"k1", b"k2", b"\x00", b"key-long-" * 3, b"z", b"\xff\xfe\x00mid", b"", b"k" * 300]
BAD = ["str", "int", "none", "list", "float", "mv"]


def mkbad(t):
    return {"str": "s", "int": 5, "none": None, "list": [1], "float": 1.5, "mv": memoryview(b"mv")}[t]


def outcome(f):
    try:
        return ("ok", f())
    except Exception as e:
        return ("exc", type(e).__name__)


class C20(P.Property):
    pid = "C20"
    level = "exploration"
    mode = "plain"
    tiers = {"quick": dict(runs=120000, budget_s=50), "thorough": dict(runs=3000000, budget_s=780)}
    technique = "seeded operation histories with sync/close/reopen against a dict reference model (deterministic simulation, history-only)"
    level_text = ("seeded exploration of operation histories (refused values, large values, odd keys, sync, close, reopen, context-manager "
                  "exit, use after close, create-over-existing, open-missing, a second dictionary alive in the same process) against a dict "
                  "reference model, every key checked after every step")
    level_note = ("trusted: the dict model and interpreter in sim/ssesim/props/c20.py; DBMDict only within one open session "
                  "(dbm.dumb backend on this image never creates the bare path, as the property scopes)")
    rule = ("seeded histories (class, create | from_dict+mutation of the source, 1..50 operations over 6 keys) interpreted on the real "
            "PickledDict / DBMDict over real files and on a dict model; non-trivial = a successful mutation and a reopen "
            "(PickledDict) or a sync/close (DBMDict); distinct = digest of (class, op kind, outcome)* sequence")
    real_stub = {"data_persistence.persistent_dict (PickledDict, DBMDict), data_persistence.bytes_shelf, dbm.dumb": "real",
                 "files": "real files in a per-worker scratch directory", "restart": "close() + open(path)", "randomness": "seeded"}
    assumptions = ["iteration order is compared exactly for PickledDict (a dict, pickled) and as sorted lists for DBMDict (dbm promises none)",
                   "DBMDict is never opened twice on one path at once (the class blocks on a per-path thread lock by design)"]
    probe_names = ["set_del_set_across_reopen", "clear_then_reopen", "clear_while_closed", "from_dict_aliasing",
                   "refused_between_syncs", "op_while_closed", "ctx_exit", "create_existing", "open_missing", "dbm_session", "bystander_dict", "release", "from_dict_other_mapping", "ctx_raise", "relative_path", "value_edited_in_place", "sync_or_close_in_another_directory"]

    def setup(self):
        from .. import world
        self.root = os.path.join(world.setup_plain(), "c20")
        from data_persistence.persistent_dict import PickledDict, DBMDict
        self.classes = {"PickledDict": PickledDict, "DBMDict": DBMDict}
        self.counter = 0

    def gen(self, seed, tier):
        rng = P.stream(seed, "workload")
        cls = "PickledDict" if rng.random() < 0.7 else "DBMDict"
        start = {"how": "create"}
        if rng.random() < 0.5:
            src = {str(KEYS.index(k)): hx(rng.randbytes(rng.randint(0, 5))) for k in rng.sample(KEYS, rng.randint(0, 4))}
            muts = []
            for _ in range(rng.randint(0, 3)):
                muts.append([rng.randrange(len(KEYS)), rng.choice(["set", "del"])])
            start = {"how": "from_dict", "src": src, "mutate_src": muts}
            if rng.random() < 0.4:
                start["src_type"] = rng.choice(["defaultdict", "OrderedDict", "subclass"])  # the source is some other kind of dict
        allops = ["set", "set", "setbad", "getitem", "get", "getd", "del", "del", "in", "len", "iter", "clear", "sync", "close",
                  "reopen", "reopen", "create_existing", "open_missing", "ctx", "release", "inplace", "away"]
        enabled = [o for o in allops if rng.random() < 0.75] or ["set", "reopen", "get"]
        bystander = rng.random() < 0.25  # a second, unrelated dictionary of the same class alive in the same process
        if bystander:
            enabled = enabled + ["by", "by"]
        steps = []
        for _ in range(rng.randint(1, 50)):
            op = rng.choice(enabled)
            st = {"op": op}
            if op == "by":
                st.update(do=rng.choice(["set", "set", "del", "check"]), k=rng.randrange(len(KEYS)), v=hx(rng.randbytes(rng.randint(0, 6))))
            if op == "set":
                st.update(k=rng.randrange(len(KEYS)), v=hx(rng.randbytes(rng.randint(0, 6) if rng.random() < 0.97 else rng.choice([255, 4096, 70000]))),
                          ba=rng.random() < 0.25)
            elif op == "setbad":
                st.update(k=rng.randrange(len(KEYS)), bad=rng.choice(BAD))
            elif op in ("getitem", "get", "del", "in"):
                st.update(k=rng.randrange(len(KEYS)))
            elif op == "getd":
                st.update(k=rng.randrange(len(KEYS) + 1))
            elif op == "ctx" and rng.random() < 0.5:
                st.update(raise_in=rng.choice(["missing", "del", "bad"]))
            elif op == "inplace":
                st.update(k=rng.randrange(len(KEYS)))
            elif op == "away":
                st.update(do=rng.choice(["sync", "sync", "close"]))
            if rng.random() < 0.3:
                st["nolook"] = True
            steps.append(st)
        plan = {"property": "C20", "seed": seed, "cls": cls, "start": start, "steps": steps, "bystander": bystander}
        if rng.random() < 0.3:
            plan["relpath"] = True  # the dictionary is named by a relative path (as the project's tests do) and the process changes its directory meanwhile
        return plan

    def execute(self, plan):
        from .. import world
        world.restore_repo_state()  # one plan = one execution: nothing of an earlier run in module-, class- or default-argument state
        res = P.Result()
        viol = res.violations
        probes = res.probes
        obs = []

        def probe(n):
            probes[n] = probes.get(n, 0) + 1

        cls = self.classes[plan["cls"]]
        full = plan["cls"] == "PickledDict"
        if not full:
            probe("dbm_session")
        D = self.root
        shutil.rmtree(D, ignore_errors=True)
        os.makedirs(D)
        self.counter += 1
        path = os.path.join(D, f"d{self.counter}")
        cwd0 = os.getcwd()
        rel = bool(plan.get("relpath")) and full
        if rel:
            probe("relative_path")
            os.makedirs(os.path.join(D, "away"))
            os.chdir(D)
            path = f"d{self.counter}"
        ba_keys = set()  # keys whose stored value is a bytearray (a mutable byte string: it can be edited in place, like in a dict)
        b = bmodel = None
        if plan.get("bystander"):
            probe("bystander_dict")
            b = cls.create(path + "-other")
            b[b"other-key"] = b"other-value"
            bmodel = {b"other-key": b"other-value"}

        def by_check(si):
            o = outcome(lambda: (len(b), sorted(b), [b.get(k) for k in sorted(bmodel)]))
            if o != ("ok", (len(bmodel), sorted(bmodel), [bmodel[k] for k in sorted(bmodel)])):
                viol.append(V("C20.state", "MODEL_MISMATCH", f"step {si}: a second, unrelated dictionary alive in the same process differs from its own "
                                                          f"dict model (dictionaries interfere): {o!r:.80}", step=si))
                return False
            return True
        start = plan["start"]
        if start["how"] == "create":
            d = cls.create(path)
            model = {}
        else:
            src = {KEYS[int(k)]: unhx(v) for k, v in start["src"].items()}
            model = dict(src)
            st_ = start.get("src_type")
            if st_:
                probe("from_dict_other_mapping")
                import collections
                if st_ == "defaultdict":
                    src = collections.defaultdict(bytes, src)
                elif st_ == "OrderedDict":
                    src = collections.OrderedDict(src)
                else:
                    class Loud(dict):  # a dict subclass with its own idea of a missing key
                        def __missing__(self, key):
                            return b"missing-in-source"
                    src = Loud(src)
            d = cls.from_dict(src, path)
            for ki, how in start["mutate_src"]:
                probe("from_dict_aliasing")
                if how == "set":
                    src[KEYS[ki]] = b"changed-in-source"
                else:
                    src.pop(KEYS[ki], None)
        closed = False
        mutated = restarted = False
        hist = {}  # key index -> list of events for the set-del-set probe
        refused_since_sync = False
        cleared_pending = False

        def key(i):
            return KEYS[i] if i < len(KEYS) else b"nokey"

        def order(x):
            # a dict iterates in insertion order and PickledDict is one (also across close/reopen: pickle keeps the order);
            # the dbm-backed class promises no order
            return list(x) if full else sorted(x)

        def check_all(si, why):
            o = outcome(lambda: (len(d), order(d), [(k in d) for k in KEYS], [d.get(k) for k in KEYS]))
            exp = ("ok", (len(model), order(model), [(k in model) for k in KEYS], [model.get(k) for k in KEYS]))
            if o != exp:
                what = o if o[0] == "exc" else [n for n, a, b in zip(("len", "iter", "in", "get"), o[1], exp[1]) if a != b]
                viol.append(V("C20.state", "MODEL_MISMATCH", f"step {si} ({why}): contents differ from dict model in {what}", step=si))
                return False
            return True

        try:
            if not check_all(-1, "after construction"):
                raise StopIteration
            if b is not None and not by_check(-1):
                raise StopIteration
            for si, st in enumerate(plan["steps"]):
                op = st["op"]
                if op == "by":
                    if b is None:
                        continue
                    k = key(st["k"])
                    if st["do"] == "set":
                        b[k] = unhx(st["v"])
                        bmodel[k] = unhx(st["v"])
                    elif st["do"] == "del" and k in bmodel:
                        del b[k]
                        del bmodel[k]
                    obs.append(("by", st["do"]))
                    if not by_check(si):
                        break
                    if not closed and not check_all(si, "after an operation on a second, unrelated dictionary"):
                        break
                    continue
                if closed and op in ("inplace", "away"):
                    continue
                if closed and op not in ("reopen", "ctx", "close", "create_existing", "open_missing", "release"):
                    probe("op_while_closed")
                    k = key(st.get("k", 0))
                    f = {"set": lambda: d.__setitem__(k, b"v"), "setbad": lambda: d.__setitem__(k, b"v"),
                         "getitem": lambda: d[k], "get": lambda: d.get(k), "getd": lambda: d.get(k, b"dflt"),
                         "del": lambda: d.__delitem__(k), "in": lambda: k in d, "len": lambda: len(d),
                         "iter": lambda: list(iter(d)), "clear": lambda: d.clear(), "sync": lambda: d.sync()}[op]
                    if op == "clear":
                        probe("clear_while_closed")
                    o = outcome(f)
                    obs.append((op, "closed", o[0]))
                    if o != ("exc", "ValueError"):
                        viol.append(V("C20.closed", "MODEL_MISMATCH", f"step {si}: {op} on a closed {plan['cls']} gave {o!r:.60}, expected ValueError", step=si))
                        break
                    continue
                if closed and op in ("reopen", "ctx") and not full:
                    continue  # a DBMDict cannot be reopened on this backend (scoped out by the property)
                if op == "set":
                    k = key(st["k"])
                    v = unhx(st["v"])
                    o = outcome(lambda: d.__setitem__(k, bytearray(v) if st.get("ba") else v))
                    obs.append((op, o[0]))
                    if o[0] != "ok":
                        viol.append(V("C20.write", "MODEL_MISMATCH", f"step {si}: set refused: {o}", step=si))
                        break
                    model[k] = v
                    (ba_keys.add if st.get("ba") else ba_keys.discard)(k)
                    mutated = True
                    hist.setdefault(st["k"], []).append("set")
                elif op == "inplace":
                    k = key(st["k"])
                    if not full or k not in ba_keys or k not in model:
                        continue
                    # the stored value is a bytearray: editing it in place is a change of the dictionary's contents (as with a dict)
                    probe("value_edited_in_place")
                    o = outcome(lambda: d[k].extend(b"+"))
                    obs.append((op, o[0]))
                    if o[0] != "ok":
                        viol.append(V("C20.read", "MODEL_MISMATCH", f"step {si}: d[k].extend on a stored bytearray gave {o!r:.60}", step=si))
                        break
                    model[k] = bytes(model[k]) + b"+"
                    mutated = True
                elif op == "away":
                    if not rel:
                        continue
                    probe("sync_or_close_in_another_directory")
                    os.chdir(os.path.join(D, "away"))
                    try:
                        o = outcome(lambda: d.sync() if st["do"] == "sync" else d.close())
                    finally:
                        os.chdir(D)
                    obs.append((op, st["do"], o[0]))
                    if o[0] != "ok":
                        viol.append(V("C20.write", "MODEL_MISMATCH", f"step {si}: {st['do']} after the process changed its directory failed: {o}", step=si))
                        break
                    if st["do"] == "close":
                        closed = True
                        continue
                elif op == "setbad":
                    k = key(st["k"])
                    o = outcome(lambda: d.__setitem__(k, mkbad(st["bad"])))
                    obs.append((op, o[0]))
                    refused_since_sync = True
                    if o != ("exc", "TypeError"):
                        viol.append(V("C20.refuse", "MODEL_MISMATCH", f"step {si}: value of type {st['bad']} gave {o!r:.60}, expected TypeError", step=si))
                        break
                elif op == "getitem":
                    k = key(st["k"])
                    e = outcome(lambda: model[k])
                    o = outcome(lambda: d[k])
                    obs.append((op, o[0]))
                    if e != o:
                        viol.append(V("C20.read", "MODEL_MISMATCH", f"step {si}: d[{k!r}] -> {o!r:.60}, model {e!r:.60}", step=si))
                        break
                elif op in ("get", "getd"):
                    k = key(st["k"])
                    if op == "get":
                        e, o = model.get(k), outcome(lambda: d.get(k))
                    else:
                        e, o = model.get(k, b"dflt"), outcome(lambda: d.get(k, b"dflt"))
                    obs.append((op, o[0]))
                    if o != ("ok", e):
                        viol.append(V("C20.read", "MODEL_MISMATCH", f"step {si}: {op}({k!r}) -> {o!r:.60}, model {e!r:.60}", step=si))
                        break
                elif op == "del":
                    k = key(st["k"])
                    e = outcome(lambda: model.__delitem__(k))
                    o = outcome(lambda: d.__delitem__(k))
                    obs.append((op, o[0]))
                    if e != o:
                        viol.append(V("C20.write", "MODEL_MISMATCH", f"step {si}: del d[{k!r}] -> {o}, model {e}", step=si))
                        break
                    if o[0] == "ok":
                        mutated = True
                        hist.setdefault(st["k"], []).append("del")
                elif op == "in":
                    k = key(st["k"])
                    o = outcome(lambda: k in d)
                    obs.append((op, o[0]))
                    if o != ("ok", k in model):
                        viol.append(V("C20.read", "MODEL_MISMATCH", f"step {si}: membership of {k!r}: {o}", step=si))
                        break
                elif op == "len":
                    o = outcome(lambda: len(d))
                    obs.append((op, o[0]))
                    if o != ("ok", len(model)):
                        viol.append(V("C20.read", "MODEL_MISMATCH", f"step {si}: len {o} vs {len(model)}", step=si))
                        break
                elif op == "iter":
                    o = outcome(lambda: order(d))
                    obs.append((op, o[0]))
                    if o != ("ok", order(model)):
                        viol.append(V("C20.read", "MODEL_MISMATCH", f"step {si}: iteration differs", step=si))
                        break
                elif op == "clear":
                    o = outcome(lambda: d.clear())
                    obs.append((op, o[0]))
                    if o[0] != "ok":
                        viol.append(V("C20.write", "MODEL_MISMATCH", f"step {si}: clear failed {o}", step=si))
                        break
                    model.clear()
                    mutated = True
                    cleared_pending = True
                    for h in hist.values():
                        h.append("del")
                elif op == "sync":
                    o = outcome(lambda: d.sync())
                    obs.append((op, o[0]))
                    if o[0] != "ok":
                        viol.append(V("C20.write", "MODEL_MISMATCH", f"step {si}: sync failed {o}", step=si))
                        break
                    if refused_since_sync:
                        probe("refused_between_syncs")
                    refused_since_sync = False
                    if not full:
                        restarted = True
                elif op == "close":
                    o = outcome(lambda: d.close())
                    obs.append((op, o[0]))
                    if o[0] != "ok":
                        viol.append(V("C20.close", "MODEL_MISMATCH", f"step {si}: close failed {o}", step=si))
                        break
                    closed = True
                    if not full:
                        restarted = True
                    continue
                elif op in ("reopen", "ctx"):
                    if not full:
                        continue
                    if not closed:
                        d.close()
                    o = outcome(lambda: cls.open(path))
                    obs.append((op, o[0]))
                    if o[0] != "ok":
                        viol.append(V("C20.reopen", "UNUSABLE", f"step {si}: open after close failed: {o}", step=si))
                        break
                    d = o[1]
                    closed = False
                    restarted = True
                    if cleared_pending:
                        probe("clear_then_reopen")
                        cleared_pending = False
                    for h in hist.values():
                        h.append("R")
                        s = "".join(x[0] for x in h)
                        if "sdR" in s.replace("RR", "R") and s.rstrip("R").endswith("s") is False:
                            pass
                    if op == "ctx":
                        probe("ctx_exit")
                        with d as d2:
                            if not check_all(si, "inside with-block after reopen"):
                                break
                            d2[b"z"] = b"ctx"
                            model[b"z"] = b"ctx"
                            ba_keys.discard(b"z")
                            mutated = True
                        closed = True
                        obs.append(("ctx-exit", "ok"))
                        how = st.get("raise_in")
                        if how:
                            # an operation that is refused inside a with-block: the refusal leaves the block like it leaves any other statement
                            probe("ctx_raise")
                            o = outcome(lambda: cls.open(path))
                            if o[0] != "ok":
                                viol.append(V("C20.reopen", "UNUSABLE", f"step {si}: open after with-block failed: {o}", step=si))
                                break
                            d, closed = o[1], False
                            reached = []

                            def body():
                                with d as d3:
                                    d3[b"k0"] = b"set-in-with"  # (a dict keeps what was done before the statement that raised)
                                    if how == "missing":
                                        d3[b"never-set"]
                                    elif how == "del":
                                        del d3[b"never-set"]
                                    else:
                                        d3[b"z"] = 7
                                    reached.append(1)
                            o = outcome(body)
                            closed = True
                            model[b"k0"] = b"set-in-with"
                            ba_keys.discard(b"k0")
                            mutated = True
                            want = ("exc", "TypeError" if how == "bad" else "KeyError")
                            if o != want or reached:
                                viol.append(V("C20.refuse", "MODEL_MISMATCH", f"step {si}: a refused operation ({how}) inside a with-block gave {o!r:.60}"
                                                                          f"{' and the block went on' if reached else ''}, a dict gives {want}", step=si))
                                break
                        continue
                elif op == "release":
                    # release() closes the dictionary and removes its file: from then on the path is a missing one
                    if not full:
                        continue
                    probe("release")
                    o = outcome(lambda: d.release())
                    obs.append((op, o[0]))
                    if o[0] != "ok":
                        viol.append(V("C20.close", "MODEL_MISMATCH", f"step {si}: release failed {o}", step=si))
                        break
                    closed = True
                    o = outcome(lambda: cls.open(path))
                    if o != ("exc", "FileNotFoundError"):
                        if o[0] == "ok":
                            o[1].close()
                        viol.append(V("C20.open", "MODEL_MISMATCH", f"step {si}: open after release gave {o[0]}:{o[1] if o[0] == 'exc' else 'a dictionary'}, expected "
                                                                f"FileNotFoundError (the dictionary was deleted)", step=si))
                        break
                    # a new, empty dictionary can be created at the path again
                    o = outcome(lambda: cls.create(path))
                    if o[0] != "ok":
                        viol.append(V("C20.create", "MODEL_MISMATCH", f"step {si}: create after release failed {o}", step=si))
                        break
                    d = o[1]
                    model.clear()
                    closed = False
                    mutated = True
                elif op == "create_existing":
                    if not full:
                        continue
                    probe("create_existing")
                    if not closed:
                        d.sync()
                    o = outcome(lambda: cls.create(path))
                    obs.append((op, o[0]))
                    if o != ("exc", "FileExistsError"):
                        viol.append(V("C20.create", "MODEL_MISMATCH", f"step {si}: create over an existing file gave {o!r:.60}", step=si))
                        break
                    if closed:
                        continue
                elif op == "open_missing":
                    probe("open_missing")
                    o = outcome(lambda: cls.open(path + "-missing"))
                    obs.append((op, o[0]))
                    if o != ("exc", "FileNotFoundError"):
                        viol.append(V("C20.open", "MODEL_MISMATCH", f"step {si}: open of a missing path gave {o!r:.60}", step=si))
                        break
                    if closed:
                        continue
                if st.get("nolook"):
                    continue  # nobody looks at the dictionary after this step (the model moved on; later looks and the final one judge it)
                if not check_all(si, f"after {op}"):
                    break
            if not viol and full:
                if not closed:
                    d.close()
                o = outcome(lambda: cls.open(path))
                if o[0] != "ok":
                    viol.append(V("C20.reopen", "UNUSABLE", f"final open after close failed: {o}", step=len(plan["steps"])))
                else:
                    d = o[1]
                    closed = False
                    check_all(len(plan["steps"]), "final, after close and reopen")
        except StopIteration:
            pass
            if b is not None and not viol:
                by_check(len(plan["steps"]))
        finally:
            try:
                d.close()
            except Exception:
                pass
            try:
                if b is not None:
                    b.close()
            except Exception:
                pass
            os.chdir(cwd0)
        for ki, h in hist.items():
            s = "".join(x[0] for x in h)
            # set, delete, (reopen), set of one key with a reopen somewhere in between
            i1 = s.find("s")
            i2 = s.find("d", i1 + 1) if i1 >= 0 else -1
            i3 = s.find("s", i2 + 1) if i2 >= 0 else -1
            if i3 >= 0 and "R" in s[i1:i3]:
                probe("set_del_set_across_reopen")
        res.digest = P.digest_of((plan["cls"], obs, [v.cls() for v in viol]))
        res.shape = P.shape_of((plan["cls"], start["how"], obs))
        res.nontrivial = mutated and restarted
        res.events = len(obs)
        res.counters = {"reopen(restart)": sum(1 for o in obs if o[0] in ("reopen", "ctx")), "sync": sum(1 for o in obs if o[0] == "sync"),
                        "refused_value_injected": sum(1 for o in obs if o[0] == "setbad"),
                        "use_after_close": sum(1 for o in obs if len(o) == 3)}
        res.trace = [plan["cls"]] + [list(o) for o in obs[:40]]
        res.cover = {f"{plan['cls']}:{o[0]}:{o[-1]}": 1 for o in obs}
        return res

    def simplifications(self, plan):
        if plan.get("bystander"):
            yield dict(plan, bystander=False)
        if plan["start"]["how"] != "create":
            yield dict(plan, start={"how": "create"})
            if plan["start"].get("mutate_src"):
                yield dict(plan, start=dict(plan["start"], mutate_src=[]))
        for i, st in enumerate(plan["steps"]):
            if st.get("ba"):
                yield dict(plan, steps=plan["steps"][:i] + [dict(st, ba=False)] + plan["steps"][i + 1:])

    def finding_shape(self, plan, v):
        return plan["cls"] + ":" + "-".join(s["op"] for s in plan["steps"][:6])


PROPERTY = C20()
