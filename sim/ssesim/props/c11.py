"""C11 -- client workflow: out-of-order steps are refused, the key is write-once."""
import asyncio
import copy
import pickle

from .. import core, fe, world
from .. import prop as P
from ..prop import V, hx, unhx

OPS = ["create", "create_bad", "create_again", "create_stored", "create_other", "server_wipe", "encrypt_empty", "gen_key", "encrypt", "upload_config", "upload_index", "search"]
LEGAL = ["create", "gen_key", "encrypt", "upload_config", "upload_index", "search", "search"]
BAD_CFG = ["unknown_scheme", "missing_param", "aes_key_20", "no_scheme", "scheme_lowercase", "scheme_trailing_space", "numeric_string"]


def flags_of(bits):
    return dict(cc=bool(bits & 1), cu=bool(bits & 2), kc=bool(bits & 4), de=bool(bits & 8), du=bool(bits & 16))


class C11(P.Property):
    pid = "C11"
    level = "exploration"
    mode = "frontend"
    tiers = {"quick": dict(runs=3200, budget_s=60), "thorough": dict(runs=120000, budget_s=800)}
    technique = ("deterministic simulation: seeded histories of client operations (fresh client object per step, live simulated server) "
                 "against a 5-flag reference model, files compared after every step")
    level_text = ("seeded exploration of client-operation histories (4-16 operations, legal and out-of-order, valid and invalid "
                  "configurations, create from the stored configuration, service deleted on the server, all nine schemes, gc points, one "
                  "optional 70 s reply stall) against a reference model that tracks the client's five flags, the server's state and the "
                  "local index; files under ~/.sse/client compared after every step")
    level_note = ("trusted: reference model/interpreter in props/c11.py, the simulator; a refusal is any raised exception; an encrypt/search "
                  "failure that the direct scheme call reproduces counts as a refusal by the scheme, not as a workflow error")
    rule = ("history = 4..16 client operations biased 55/45 between the legal next step and an arbitrary one, each on a freshly "
            "constructed Service(sid) as commands.py does, + scheme + database + network profile + gaps; non-trivial = at least one "
            "refused operation and at least one operation that used a connection; distinct = digest of (flag set, operation, outcome)*")
    real_stub = dict(deployment="real client Service + real server + websockets on the simulated loop/TCP; disk seam observing; no crash points (C13), but the server may be down for one command; wall clock (time.time) and file time stamps (os.stat) simulated: follow the virtual clock, steppable, per-run stamp granularity")
    assumptions = ["one service per run; operations before any create use an unknown sid"]
    probe_names = ["key_regen_refused", "encrypt_again_refused", "upload_before_create_refused", "search_before_upload_refused",
                   "invalid_config_refused", "create_again_refused", "create_from_stored_config_refused", "reached_uploaded", "scheme_refused_input", "op_on_unknown_sid", "op_timed_out_under_stall", "service_deleted_on_server", "second_service_created", "via_commands", "create_with_taken_name_refused", "second_service_unusual_name", "network_op_while_server_down", "upload_without_waiting", "cli_addressed_by_sid"]

    def setup(self):
        world.setup_frontend()

    def gen(self, seed, tier):
        rng = P.stream(seed, "workload")
        scheme = rng.choice(fe.SCHEMES)
        z = fe.id_size(fe.default_config(scheme)[1])
        db = {}
        c = 0
        for i in range(rng.randint(1, 4)):
            ids = []
            for _ in range(rng.randint(1, 4)):
                c += 1
                # CJJ14.PiBas takes identifiers of any size, also of different sizes under one keyword; the other schemes fix the size
                ids.append(hx(c.to_bytes(rng.randint(1, z) if scheme == "CJJ14.PiBas" else z, "big")))
            db[hx(b"k%d" % i)] = ids
        steps = []
        i = 0
        for _ in range(rng.randint(4, 16)):
            if rng.random() < 0.55 and i < len(LEGAL):
                op = LEGAL[i]
                i += 1
            else:
                op = rng.choice(OPS)
            st = {"op": op, "gap": rng.choice([0, 0, 0.5, 1.5])}
            if op == "create_bad":
                st["bad"] = rng.choice(BAD_CFG)
            if op == "search":
                st["w"] = rng.choice(list(db) + [hx(b"absent")])
            if op in ("upload_config", "upload_index", "search") and rng.random() < 0.07:
                st["down"] = True  # the server is not running when this command is issued
            elif op in ("upload_config", "upload_index") and rng.random() < 0.2:
                st["nowait"] = True  # the application does not wait for the acknowledgement (wait=False, the default) and looks again 45 s later
            steps.append(st)
        knobs = dict(scheme=scheme, db=db, net=rng.choice([dict(lo=0.001, hi=0.05), dict(lo=0.001, hi=0.05, seg=3), dict(lo=0.01, hi=0.3, seg=2)]),
                     skew=rng.choice([1.0, 1.0, 0.5, 2.0]), bufsize=rng.choice([8192, 8192, 16]), gc_every=rng.choice([0, 0, 1, 2]),
                     stall_step=(rng.randrange(len(steps)) if rng.random() < 0.12 else None),
                     via_commands=rng.random() < 0.3)  # drive frontend/client/commands.py by service name, one process per command
        if rng.random() < 0.3:
            knobs["mtime_gran"] = rng.choice([1, 2])  # a file system with coarse time stamps: writes within one tick carry the same stamp
        if rng.random() < 0.15 and steps:
            # the wall clock is stepped before that step (NTP correction, VM resume): time.time() and new file stamps jump, loop time does not
            knobs["clock_steps"] = {str(rng.randrange(len(steps))): rng.choice([-3600.0, -5.0, -0.5, -3 * 86400.0, 3600.0, 9 * 86400.0])}
        if knobs["via_commands"]:
            knobs["cli_by_sid"] = rng.random() < 0.5
            knobs.update(stall_step=None)
            for st_ in steps:
                if st_["op"] in ("create_stored", "create_other", "create_again"):
                    st_["op"] = rng.choice(["create_taken_name", "create_taken_name", "create_weird_name"])
        return {"property": "C11", "seed": seed, "knobs": knobs, "steps": steps}

    def execute(self, plan):
        res = P.Result()
        knobs = plan["knobs"]
        run = fe.Run(plan["seed"], knobs)
        out = dict(obs=[], cover={}, probes={})
        try:
            with world.Watchdog(240):
                try:
                    run.sim.run(self._scenario(run, plan, out, res.violations))
                except (core.SimLimit, core.SimDeadlock) as e:
                    res.violations.append(V("C11", "HANG", f"run did not finish: {e}"))
            res.digest = run.sim.digest()
            res.sim_seconds = run.sim.loop._vt
            res.events = run.sim.loop.steps
            res.counters = dict(run.sim.counters)
        finally:
            run.finish()
        res.probes = out["probes"]
        res.cover = out["cover"]
        res.shape = P.shape_of(out["obs"])
        res.nontrivial = any(o[2] == "refused" for o in out["obs"]) and any(o[1] in ("upload_config", "upload_index", "search") for o in out["obs"])
        res.trace = dict(scheme=knobs["scheme"], observed=[list(map(str, o)) for o in out["obs"]])
        return res

    def bad_config(self, cfg0, kind):
        c = copy.deepcopy(cfg0)
        if kind == "unknown_scheme":
            c["scheme"] = "No.Such"
        elif kind == "missing_param":
            c.pop(sorted(k for k in c if k.startswith("param_"))[0])
        elif kind == "numeric_string":
            k = sorted(k for k in c if k.startswith("param_") and isinstance(c[k], int) and not isinstance(c[k], bool))[0]
            c[k] = str(c[k])  # a hand-edited configuration file with a quoted number
        elif kind == "scheme_lowercase":
            c["scheme"] = c["scheme"].lower()  # no scheme of that spelling can be loaded
        elif kind == "scheme_trailing_space":
            c["scheme"] = c["scheme"] + " "
        elif kind == "aes_key_20":
            for k in ("param_lambda", "param_k"):
                if k in c:
                    c[k] = 20
        else:
            c.pop("scheme")
        return c

    async def _scenario(self, run, plan, out, viol):
        if plan["knobs"].get("via_commands"):
            return await self._scenario_cli(run, plan, out, viol)
        knobs = plan["knobs"]
        scheme = knobs["scheme"]
        db = {unhx(k): [unhx(x) for x in v] for k, v in knobs["db"].items()}
        L, cfg0 = fe.default_config(scheme, n_files=len({x for v in db.values() for x in v}))
        probes, cover = out["probes"], out["cover"]
        run.boot_server()
        await asyncio.sleep(0.01)
        host = fe.ClientHost(run)
        unknown = "%064x" % core.h64(plan["seed"], "unknown-sid")
        sid = None
        F = dict(cc=False, cu=False, kc=False, de=False, du=False)
        srv = 0  # the server's state for this service
        has_edb = False  # the client still holds its local copy of the index
        keybytes = None
        empty_index = False  # the index was built from a database without postings: every search answers empty

        for si, st in enumerate(plan["steps"]):
            op = st["op"]
            cur = sid or unknown
            run.maybe_gc(si)
            if sid is None and op not in ("create", "create_bad"):
                probes["op_on_unknown_sid"] = 1
            before = fe.client_snapshot()
            scheme_refusal = False
            search_w = None
            if op == "create":
                if sid is not None:
                    op = "create_again"
            if op == "create":
                r = await host.create(copy.deepcopy(cfg0))
                exp = True
            elif op == "create_bad":
                badcfg = self.bad_config(cfg0, st.get("bad", "unknown_scheme"))
                try:
                    import schemes
                    schemes.load_sse_module(badcfg["scheme"]).SSEConfig(copy.deepcopy(badcfg))
                    continue  # this mutation leaves a configuration the scheme accepts: not an invalid one
                except Exception:
                    pass
                r = await host.create(badcfg)
                exp = False
            elif op == "create_again":
                r = await host.create_on(cur, copy.deepcopy(cfg0))
                exp = sid is None  # on an unknown sid this simply creates a new service
            elif op == "create_stored":
                # create-service fed with the configuration file the client stored for this service (it carries the salt,
                # hence yields the same sid): redoing a completed step
                if sid is None:
                    continue
                stored = self._disk_config(run, sid)
                import hashlib
                if hashlib.sha256(pickle.dumps(stored)).hexdigest() != sid:
                    continue  # (pickle memoisation of repeated strings) this would be a different, new service: not a redo
                r = await host.create(stored)
                exp = False
            elif op == "create_other":
                # a second, independent service from the same configuration in the same process: all prerequisites are met, it has to
                # be created under another sid (fresh salt) and must leave the first service alone
                if sid is None:
                    continue
                r = await host.create(copy.deepcopy(cfg0))
                after = fe.client_snapshot()
                new = [k[:-1] for k in after if k.endswith("/") and k not in before]
                out["obs"].append(("-", "create_other", "accepted" if r[0] == "ok" else "refused"))
                if r[0] != "ok" or len(new) != 1 or new[0] == sid:
                    viol.append(V("C11.order", "REFUSAL_MISMATCH", f"step {si}: creating a second service from the same configuration was "
                                                               f"{'refused (' + repr(r[1])[:80] + ')' if r[0] != 'ok' else 'not given a directory of its own'}", site=op))
                    return
                changed = sorted(k for k in before if before.get(k) != after.get(k))
                if changed:
                    viol.append(V("C11.refusal", "STATE_MISMATCH", f"step {si}: creating a second service changed files of the first: {changed}", site=op))
                    return
                probes["second_service_created"] = 1
                import shutil
                shutil.rmtree(run.sse_path("client", new[0]), ignore_errors=True)  # (kept out of the one-service model)
                continue
            elif op == "server_wipe":
                # the operator deletes the service on the server (frontend/README.md: state 0 = "not created or deleted"); no connection
                # of the service is open at that moment.  From then on the server reports state 0 and the client's upload flags follow.
                if sid is None or srv == 0:
                    continue
                await asyncio.sleep(3 * max(1.0, knobs.get("skew", 1.0)))
                import shutil
                shutil.rmtree(run.sse_path(sid), ignore_errors=True)
                srv = 0
                probes["service_deleted_on_server"] = 1
                out["obs"].append(("-", "server_wipe", "done"))
                continue
            elif op == "gen_key":
                r = await host.gen_key(cur)
                exp = F["cc"] and not F["kc"]
            elif op == "encrypt_empty":
                # a database without postings ({} or one keyword with an empty list): whether the scheme takes it is the scheme's
                # business -- but it is either encrypted (the step is done) or refused (nothing changes)
                r = await host.encrypt(cur, {} if st.get("gap", 0) == 0 else {b"kw": []})
                exp = F["cc"] and F["kc"] and not F["de"]
                if exp and r[0] == "exc":
                    exp = False
                    probes["scheme_refused_input"] = 1
                if r[0] == "ok":
                    empty_index = True
                op = "encrypt"
            elif op == "encrypt":
                r = await host.encrypt(cur, copy.deepcopy(db))
                exp = F["cc"] and F["kc"] and not F["de"]
                if exp and r[0] == "exc":
                    # does the scheme itself refuse this database?
                    try:
                        S = L.SSEScheme(copy.deepcopy(cfg0 if sid is None else self._disk_config(run, sid)))
                        K = L.SSEKey.deserialize(before[sid + "/key"], S.config)
                        S.EDBSetup(K, copy.deepcopy(db))
                    except Exception as e2:
                        if type(e2) is type(r[1]):
                            scheme_refusal = True
            elif op in ("upload_config", "upload_index", "search"):
                down = bool(st.get("down")) and sid is not None and not knobs.get("stall_step") == si
                if down:
                    # fault: the server is not running.  The command cannot connect, is refused, and -- like every refused step -- leaves the
                    # persisted client state as it was (in particular the two upload flags: nothing was learnt from the server)
                    probes["network_op_while_server_down"] = 1
                    run.sim.count("server_down_request")
                    await asyncio.sleep(3 * max(1.0, knobs.get("skew", 1.0)))
                    run.kill_server()
                    await asyncio.sleep(0.2)
                elif sid is not None:
                    # every network operation first connects and takes the two upload flags from the server's reported state
                    F["cu"], F["du"] = srv >= 1, srv == 2
                stalled = knobs.get("stall_step") == si and sid is not None
                nst0 = run.sim.counters.get("stall", 0)
                if stalled:
                    # fault: the server's reply to this request is delayed beyond the client's 60 s patience
                    run.sim.stall_once = ("s", 70, 2 + 2 * (knobs["net"].get("seg", 1) > 1))
                nowait = False
                if op == "upload_config":
                    exp = F["cc"] and not F["cu"]
                    nowait = bool(st.get("nowait")) and exp and not down and not stalled
                    r = await host.upload_config(cur, wait=not nowait)
                elif op == "upload_index":
                    exp = F["cu"] and F["kc"] and F["de"] and not F["du"] and has_edb  # (the local index is deleted once its upload is acknowledged)
                    nowait = bool(st.get("nowait")) and exp and not down and not stalled
                    r = await host.upload_index(cur, wait=not nowait)
                else:
                    search_w = unhx(st.get("w", hx(b"absent")))
                    exp = F["du"]
                    r = await host.search(cur, search_w)
                if nowait:
                    probes["upload_without_waiting"] = 1
                run.sim.stall_once = None
                if down:
                    exp = False
                    run.boot_server()
                    await asyncio.sleep(0.05)
                if stalled and run.sim.counters.get("stall", 0) > nst0 and r[0] == "exc":
                    # the one relaxed case: the stalled operation may fail (time-out); whether the server applied it is read from the
                    # server's disk, the client's flags are whatever it persisted (only the two upload flags may have moved)
                    probes["op_timed_out_under_stall"] = 1
                    await asyncio.sleep(30)
                    srv = self._server_state(run, sid)
                    after = fe.client_snapshot()
                    m = after.get(sid + "/service_meta")
                    if not (isinstance(m, tuple) and m[0] == "meta" and isinstance(m[1].get("state"), int)):
                        viol.append(V("C11.flags", "STATE_MISMATCH", f"step {si}: after a timed-out {op} the client's state file is unusable: {m!r:.60}", site=op))
                        return
                    got = flags_of(m[1]["state"])
                    if any(got[k] != F[k] for k in ("cc", "kc", "de")):
                        viol.append(V("C11.flags", "STATE_MISMATCH", f"step {si}: a timed-out {op} changed flags other than the upload flags: {got} vs {F}", site=op))
                        return
                    F.update(cu=got["cu"], du=got["du"])
                    out["obs"].append(("".join(k for k in ("cc", "kc", "de", "cu", "du") if F[k]) or "-", op, "timed-out"))
                    if keybytes is not None and after.get(sid + "/key") != keybytes:
                        viol.append(V("C11.key", "KEY_CHANGED", f"step {si}: the key file changed during {op}", site=op))
                        return
                    await asyncio.sleep(st.get("gap", 0))
                    continue
            else:
                continue
            if r[0] == "died":
                viol.append(V("C11", "HARNESS", "client process died without a kill"))
                return
            ok = r[0] == "ok"
            if scheme_refusal:
                probes["scheme_refused_input"] = 1
                exp = False
            fl = "".join(k for k in ("cc", "kc", "de", "cu", "du") if F[k]) or "-"
            out["obs"].append((fl, op, "accepted" if ok else "refused"))
            cover[f"{fl}:{op}:{'accepted' if ok else 'refused'}"] = 1
            if ok != exp:
                viol.append(V("C11.order", "REFUSAL_MISMATCH", f"step {si}: {op} with flags [{fl}] was {'accepted' if ok else 'refused (' + repr(r[1])[:80] + ')'}, "
                                                           f"reference model says {'accepted' if exp else 'refused'}", site=op))
                return
            after = fe.client_snapshot()
            if ok:
                if op in ("create", "create_again"):
                    new = [k[:-1] for k in after if k.endswith("/") and k not in before]
                    if len(new) != 1 or r[1] != new[0]:
                        viol.append(V("C11.create", "STATE_MISMATCH", f"step {si}: create returned {r[1]!r:.20} but new directories are {new}", site=op))
                        return
                    sid = new[0]
                    F["cc"] = True
                elif op == "gen_key":
                    F["kc"] = True
                    keybytes = after.get(sid + "/key")
                    if keybytes is None:
                        viol.append(V("C11.key", "STATE_MISMATCH", f"step {si}: key generation succeeded but there is no key file", site=op))
                        return
                elif op == "encrypt":
                    F["de"] = True
                    has_edb = True
                elif op in ("upload_config", "upload_index"):
                    box = r[1][0]
                    ack = pickle.loads(box[0]) if box else None
                    if not (isinstance(ack, dict) and ack.get("ok") is True) and not nowait:
                        viol.append(V("C11.order", "REFUSAL_MISMATCH", f"step {si}: {op} returned but the callback received {ack!r:.60}", site=op))
                        return
                    F["cu" if op == "upload_config" else "du"] = True
                    srv = 1 if op == "upload_config" else 2
                    if op == "upload_index":
                        has_edb = False
                else:
                    box, s = r[1]
                    if not box:
                        viol.append(V("C11.search", "WRONG_RESULT", f"step {si}: search returned but the callback received nothing", site=op))
                        return
                    got = fe.result_list(s.sse_module_loader, s.config_object, box[0])
                    want = [] if empty_index else db.get(search_w, [])
                    same = (set(got) == set(want) and len(got) == len(want)) if isinstance(got, (set, frozenset)) else list(got) == want
                    if not same:
                        viol.append(V("C11.search", "WRONG_RESULT", f"step {si}: search({search_w!r}) delivered {len(got)} ids, expected {len(want)}", site=op))
                        return
                    if F["du"]:
                        probes["reached_uploaded"] = 1
            else:
                name = {"gen_key": "key_regen_refused" if F["kc"] else None, "encrypt": "encrypt_again_refused" if F["de"] else None,
                        "upload_config": "upload_before_create_refused" if not F["cc"] else None,
                        "search": "search_before_upload_refused", "create_bad": "invalid_config_refused",
                        "create_again": "create_again_refused", "create_stored": "create_from_stored_config_refused"}.get(op)
                if name:
                    probes[name] = 1
                metakey = (sid + "/service_meta") if sid else None  # its content is judged by the flags check below
                if {k: v for k, v in after.items() if k != metakey} != {k: v for k, v in before.items() if k != metakey}:
                    diff = sorted(k for k in set(before) | set(after) if before.get(k) != after.get(k))
                    viol.append(V("C11.refusal", "STATE_MISMATCH", f"step {si}: refused {op} changed the client's files: {diff}", site=op))
                    return
            if keybytes is not None and after.get(sid + "/key") != keybytes:
                viol.append(V("C11.key", "KEY_CHANGED", f"step {si}: the key file changed during {op}", site=op))
                return
            if sid:
                m = after.get(sid + "/service_meta")
                if isinstance(m, tuple) and m[0] == "meta" and not (isinstance(m[1], dict) and isinstance(m[1].get("state"), int)):
                    raise RuntimeError(f"harness: the client's service_meta has a format this check cannot decode: {m[1]!r:.80}")
                if not (isinstance(m, tuple) and m[0] == "meta" and flags_of(m[1].get("state", -1)) == F):
                    viol.append(V("C11.flags", "STATE_MISMATCH", f"step {si}: persisted flags {m!r:.60} differ from the reference model {F} after {op}", site=op))
                    return
            await asyncio.sleep(st.get("gap", 0))
        if sid is not None and srv == 2:
            for w in list(db) + [b"absent"]:
                r = await host.search(sid, w)
                if r[0] != "ok" or not r[1][0]:
                    viol.append(V("C11.search", "WRONG_RESULT", f"final search({w!r}) failed: {r[1]!r:.80}", site="search"))
                    return
                box, s = r[1]
                got = fe.result_list(s.sse_module_loader, s.config_object, box[0])
                want = [] if empty_index else db.get(w, [])
                same = (set(got) == set(want) and len(got) == len(want)) if isinstance(got, (set, frozenset)) else list(got) == want
                if not same:
                    viol.append(V("C11.search", "WRONG_RESULT", f"final search({w!r}) delivered {len(got)} ids, expected {len(want)}", site="search"))
                    return
        await asyncio.sleep(3)

    async def _scenario_cli(self, run, plan, out, viol):
        """the same histories through the documented command layer (frontend/client/commands.py, services addressed by name):
        every command is its own client process with freshly imported command and alias modules; a command is refused iff it
        prints an error line"""
        import ast
        import contextlib
        import importlib
        import io
        import json
        import os
        knobs = plan["knobs"]
        scheme = knobs["scheme"]
        db = {unhx(k): [unhx(x) for x in v] for k, v in knobs["db"].items()}
        L, cfg0 = fe.default_config(scheme, n_files=len({x for v in db.values() for x in v}))
        probes, cover = out["probes"], out["cover"]
        probes["via_commands"] = 1
        indir = os.path.join(world.scratch_root(), "client-input")
        os.makedirs(indir, exist_ok=True)
        cfg_path, db_path = os.path.join(indir, "config.json"), os.path.join(indir, "db.json")
        with open(cfg_path, "w") as f:
            json.dump(cfg0, f)
        with open(db_path, "w") as f:
            json.dump({k.decode(): [x.hex() for x in v] for k, v in db.items()}, f)
        run.boot_server()
        await asyncio.sleep(0.01)
        host = fe.ClientHost(run)
        sname = "Svc-\u00c41 Main"  # (not lower-case, not ASCII: a name an alias layer might want to "normalise")
        nproc = [0]
        sid = None
        F = dict(cc=False, cu=False, kc=False, de=False, du=False)
        srv = 0
        has_edb = False
        keybytes = None

        weird_done = [False]

        def addr():
            # a service is addressed by its name or, with --sid, by its id
            if knobs.get("cli_by_sid") and sid is not None:
                probes["cli_addressed_by_sid"] = 1
                return dict(sid=sid)
            return dict(sname=sname)

        async def command(fn_name, *a, **kw):
            """one CLI invocation = one client process"""
            nproc[0] += 1
            host.restart("cli%d" % nproc[0])
            buf = io.StringIO()

            async def body():
                import frontend.client.services.service_name_handler as snh
                import frontend.client.commands as cmds
                importlib.reload(snh)
                cmds = importlib.reload(cmds)
                with contextlib.redirect_stdout(buf):
                    r = getattr(cmds, fn_name)(*a, **kw)
                    if asyncio.iscoroutine(r):
                        await r
            r = await host.call(body)
            text = buf.getvalue()
            if r[0] == "died":
                return "died", text
            if r[0] == "exc":
                return "raised:" + type(r[1]).__name__, text  # the command layer reports errors, it does not raise
            return ("refused" if "error" in text.lower() else "accepted"), text

        for si, st in enumerate(plan["steps"]):
            op = st["op"]
            run.maybe_gc(si)
            before = fe.client_snapshot()
            search_w = None
            if op == "create" and sid is not None:
                op = "create_taken_name"
            if op == "create":
                outcome, text = await command("create_service", cfg_path, sname)
                exp = True
            elif op == "create_taken_name":
                if sid is None:
                    continue
                outcome, text = await command("create_service", cfg_path, sname)  # the name is taken: refused, nothing may change
                exp = False
            elif op == "create_weird_name":
                # another service under a name that came from undecodable command-line bytes (surrogate escape): a valid str
                if sid is None or weird_done[0]:
                    continue
                weird_done[0] = True
                outcome, text = await command("create_service", cfg_path, "caf\udce9 \u20ac")
                after = fe.client_snapshot()
                new = [k[:-1] for k in after if k.endswith("/") and k not in before]
                out["obs"].append(("-", "cli:create_weird_name", outcome))
                if outcome != "accepted" or len(new) != 1 or new[0] == sid:
                    viol.append(V("C11.order", "REFUSAL_MISMATCH", f"step {si}: creating a second service under another (unusual but valid) name was {outcome}: "
                                                               f"{text.strip()[-100:]!r}", site="cli-create"))
                    return
                probes["second_service_unusual_name"] = 1
                op = "create_other_name"  # falls through to the checks on the first service (flags, key, alias) below
                exp = True
            elif op == "create_bad":
                badcfg = self.bad_config(cfg0, st.get("bad", "unknown_scheme"))
                try:
                    import schemes
                    schemes.load_sse_module(badcfg["scheme"]).SSEConfig(copy.deepcopy(badcfg))
                    continue
                except Exception:
                    pass
                bad_path = os.path.join(indir, "bad.json")
                with open(bad_path, "w") as f:
                    json.dump(badcfg, f)
                outcome, text = await command("create_service", bad_path, "bad-name-%d" % si)
                exp = False
            elif op == "gen_key":
                outcome, text = await command("generate_key", **addr())
                exp = F["cc"] and not F["kc"]
            elif op == "encrypt":
                outcome, text = await command("encrypt_database", db_path, **addr())
                exp = F["cc"] and F["kc"] and not F["de"]
                if exp and outcome == "refused":
                    try:
                        S_ = L.SSEScheme(self._disk_config(run, sid))
                        S_.EDBSetup(L.SSEKey.deserialize(before[sid + "/key"], S_.config), copy.deepcopy(db))
                    except Exception:
                        probes["scheme_refused_input"] = 1
                        exp = False
            elif op in ("upload_config", "upload_index", "search"):
                if sid is not None:
                    F["cu"], F["du"] = srv >= 1, srv == 2
                if op == "upload_config":
                    exp = F["cc"] and not F["cu"]
                    outcome, text = await command("upload_config", **addr())
                elif op == "upload_index":
                    exp = F["cu"] and F["kc"] and F["de"] and not F["du"] and has_edb
                    outcome, text = await command("upload_encrypted_database", **addr())
                else:
                    search_w = unhx(st.get("w", hx(b"absent")))
                    exp = F["du"]
                    outcome, text = await command("search", search_w.decode(), "hex", **addr())
                    if exp and "The result is" not in text and outcome == "accepted":
                        outcome = "refused"  # nothing was delivered
            else:
                continue
            fl = "".join(k for k in ("cc", "kc", "de", "cu", "du") if F[k]) or "-"
            out["obs"].append((fl, "cli:" + op, outcome))
            cover[f"cli:{fl}:{op}:{outcome}"] = 1
            if outcome not in ("accepted", "refused"):
                viol.append(V("C11.order", "REFUSAL_MISMATCH", f"step {si}: command {op} ended with {outcome} ({text[-120:]!r})", site="cli-" + op))
                return
            if (outcome == "accepted") != exp:
                viol.append(V("C11.order", "REFUSAL_MISMATCH", f"step {si}: command {op} with flags [{fl}] was {outcome} ({text.strip()[-100:]!r}), reference model "
                                                           f"says {'accepted' if exp else 'refused'}", site="cli-" + op))
                return
            after = fe.client_snapshot()
            if outcome == "accepted":
                if op == "create_other_name":
                    pass
                elif op == "create":
                    new = [k[:-1] for k in after if k.endswith("/") and k not in before]
                    if len(new) != 1:
                        viol.append(V("C11.create", "STATE_MISMATCH", f"step {si}: create-service made directories {new}", site="cli-create"))
                        return
                    sid = new[0]
                    F["cc"] = True
                elif op == "gen_key":
                    F["kc"] = True
                    keybytes = after.get(sid + "/key")
                elif op == "encrypt":
                    F["de"] = True
                    has_edb = True
                elif op == "upload_config":
                    F["cu"] = True
                    srv = 1
                elif op == "upload_index":
                    F["du"] = True
                    srv = 2
                    has_edb = False
                elif op == "search":
                    try:
                        lst = ast.literal_eval(text[text.index("The result is") + len("The result is"):].strip().rstrip("."))
                        got = [bytes.fromhex(x) for x in lst]
                    except Exception as e:
                        viol.append(V("C11.search", "WRONG_RESULT", f"step {si}: unreadable search output {text[-100:]!r} ({e!r})", site="cli-search"))
                        return
                    want = db.get(search_w, [])
                    if sorted(got) != sorted(want) or (scheme != "DP17.Pi" and got != want):
                        viol.append(V("C11.search", "WRONG_RESULT", f"step {si}: search({search_w!r}) by name printed {len(got)} ids, expected {len(want)}", site="cli-search"))
                        return
                    probes["reached_uploaded"] = 1
            else:
                metakey = (sid + "/service_meta") if sid else None
                if {k: v for k, v in after.items() if k != metakey} != {k: v for k, v in before.items() if k != metakey}:
                    diff = sorted(k for k in set(before) | set(after) if before.get(k) != after.get(k))
                    viol.append(V("C11.refusal", "STATE_MISMATCH", f"step {si}: refused command {op} changed the client's files: {[d[:24] for d in diff]}", site="cli-" + op))
                    return
                if op == "create_taken_name":
                    probes["create_with_taken_name_refused"] = 1
            if keybytes is not None and after.get(sid + "/key") != keybytes:
                viol.append(V("C11.key", "KEY_CHANGED", f"step {si}: the key file changed during {op}", site="cli-" + op))
                return
            if sid:
                m = after.get(sid + "/service_meta")
                if not (isinstance(m, tuple) and m[0] == "meta" and isinstance(m[1], dict) and flags_of(m[1].get("state", -1)) == F):
                    viol.append(V("C11.flags", "STATE_MISMATCH", f"step {si}: persisted flags {m!r:.60} differ from the reference model {F} after {op}", site="cli-" + op))
                    return
                # the name must still lead to the service -- asked the way a new process would ask (freshly imported alias module)
                def resolve():
                    import frontend.client.services.service_name_handler as snh
                    return importlib.reload(snh).get_service_id_by_sname(sname)
                nproc[0] += 1
                host.restart("cli%d" % nproc[0])
                rr = await host.call(resolve)
                if rr[0] != "ok" or rr[1] != sid:
                    viol.append(V("C11.alias", "STATE_MISMATCH", f"step {si}: after {op} the service name no longer leads to the service "
                                                             f"({rr[1]!r:.80})", site="cli-" + op))
                    return
            await asyncio.sleep(st.get("gap", 0))
        await asyncio.sleep(3)

    def _server_state(self, run, sid):
        try:
            with open(run.sse_path(sid, "service_meta"), "rb") as f:
                return pickle.load(f).get("state", 0)
        except Exception:
            return 0

    def _disk_config(self, run, sid):
        import json
        with open(run.sse_path("client", sid, "config.json")) as f:
            return json.load(f)

    def simplifications(self, plan):
        k = plan["knobs"]
        for key, val in (("skew", 1.0), ("bufsize", 8192), ("net", dict(lo=0.01, hi=0.01)), ("gc_every", 0), ("stall_step", None), ("mtime_gran", None), ("clock_steps", None)):
            if k.get(key) != val:
                yield dict(plan, knobs=dict(k, **{key: val}))
        if k["scheme"] != "CJJ14.PiBas" and not k.get("via_commands") and fe.id_size(fe.default_config(k["scheme"])[1]) == 8:
            yield dict(plan, knobs=dict(k, scheme="CJJ14.PiBas"))
        steps = plan["steps"]
        for i, st in enumerate(steps):
            if st.get("gap"):
                yield dict(plan, steps=steps[:i] + [dict(st, gap=0)] + steps[i + 1:])

    def finding_shape(self, plan, v):
        return "-".join(s["op"] for s in plan["steps"][:8])


PROPERTY = C11()
