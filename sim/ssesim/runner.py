"""ssesim.runner -- orchestration: workers, determinism self-test, minimisation, replay,
known findings, evidence.  Exit codes: 0 held, 1 violation, 2 harness failure."""
import argparse
import collections
import importlib
import json
import os
import subprocess
import sys
import time
import traceback

VERIF = os.path.realpath(os.path.join(os.path.dirname(__file__), "..", ".."))
OUT = os.environ.get("VERIF_OUT") or os.path.join(VERIF, "out")  # scratch + replay files
REPLAYS = os.path.join(OUT, "replays")
EVIDENCE = os.path.join(VERIF, "evidence")
KNOWN = os.path.join(VERIF, "known_findings.txt")
PROPS = ["C07", "C09", "C10", "C11", "C12", "C13", "C19", "C20"]
DET_SEEDS = {"quick": 16, "thorough": 64}


def load_prop(pid):
    mod = importlib.import_module(f"ssesim.props.{pid.lower()}")
    return mod.PROPERTY


# --------------------------------------------------------------------------- worker side

def _same_class(res, cls):
    return any(v.cls() == cls for v in res.violations)


def minimise(prop, plan, cls, budget=300, keep_shape=None):
    """ddmin over plan['steps'] then property-specific simplifications; keeps the violation class (and, for a class
    that has a known finding, the finding shape: a new failure must not be minimised into the known one)"""
    from .prop import jdump
    tries = [0]
    t_end = time.time() + 90  # and at most 90 s of wall clock (a plan with a huge payload takes tens of seconds to execute)

    def fails(p):
        if tries[0] >= budget or time.time() > t_end:
            return False
        tries[0] += 1
        try:
            r = prop.execute(p)
        except Exception:
            return False
        for v in r.violations:
            if v.cls() == cls and (keep_shape is None or prop.finding_shape(p, v) == keep_shape):
                return True
        return False

    cur = json.loads(jdump(plan))
    steps = cur.get("steps")
    if isinstance(steps, list) and len(steps) > prop.min_steps():
        n = 2
        while len(cur["steps"]) >= 2 and tries[0] < budget:
            steps = cur["steps"]
            chunk = max(1, len(steps) // n)
            reduced = False
            for i in range(0, len(steps), chunk):
                cand = dict(cur, steps=steps[:i] + steps[i + chunk:])
                if len(cand["steps"]) < prop.min_steps():
                    continue
                if fails(cand):
                    cur = cand
                    n = max(n - 1, 2)
                    reduced = True
                    break
            if not reduced:
                if chunk == 1:
                    break
                n = min(len(steps), n * 2)
    changed = True
    while changed and tries[0] < budget:
        changed = False
        for cand in prop.simplifications(cur):
            if jdump(cand) == jdump(cur):
                continue
            if fails(cand):
                cur = cand
                changed = True
                break
    cur["minimised"] = dict(tries=tries[0], steps_before=len(plan.get("steps", [])), steps_after=len(cur.get("steps", [])))
    return cur


def worker_main(a):
    from . import prop as P
    t0 = time.time()
    prop = load_prop(a.prop)
    prop.setup()
    master = a.master
    out = dict(runs=0, enum_runs=0, counters=collections.Counter(), probes=collections.Counter(), sim_seconds=0.0,
               events=0, shapes=set(), nontrivial=0, violations=[], digests={}, samples=[], cover=collections.Counter(),
               inconclusive=collections.Counter(), selfcheck_mismatch=[], harness_errors=[], stopped_early=False)
    seen_cls = collections.Counter()
    known_classes = {(k.get("clause"), k.get("kind"), k.get("site")) for k in read_known()[0] if k.get("property") == prop.pid}

    def one(plan, idx, tag):
        try:
            res = prop.execute(plan)
        except BaseException as e:  # engine/harness failure, never a verdict
            if isinstance(e, KeyboardInterrupt):
                raise
            out["harness_errors"].append(dict(idx=idx, tag=tag, error="".join(traceback.format_exception(e))[-1500:], plan=plan))
            return None
        out["counters"].update(res.counters)
        out["probes"].update(res.probes)
        out["cover"].update(res.cover)
        out["sim_seconds"] += res.sim_seconds
        out["events"] += res.events
        if res.inconclusive:
            out["inconclusive"][res.inconclusive] += 1
        if res.nontrivial:
            out["nontrivial"] += 1
            out["shapes"].add(res.shape)
        if len(out["samples"]) < 2 and res.trace is not None and res.nontrivial:
            out["samples"].append(dict(plan=plan, observed=res.trace))
        for v in res.violations[:1]:
            cls = v.cls()
            seen_cls[cls] += 1
            keyc = tuple(str(x) for x in cls)
            if (seen_cls[cls] <= 2 and len(out["violations"]) < 8) or (keyc in known_classes and seen_cls[cls] <= 40):
                mplan = minimise(prop, plan, cls, keep_shape=prop.finding_shape(plan, v) if keyc in known_classes else None)
                try:
                    mres = prop.execute(mplan)
                    mv = next((x for x in mres.violations if x.cls() == cls), None)
                except Exception:
                    mv = None
                if mv is None:
                    mplan, mv, mres = plan, v, res
                rec = dict(property=prop.pid, idx=idx, tag=tag, violation=dict(mv), plan=mplan, digest=mres.digest,
                           shape=prop.finding_shape(mplan, mv))
                if sys.flags.optimize:
                    rec["pyopt"] = sys.flags.optimize  # found in an interpreter started with -O (assert statements are not executed): replay likewise
                if tag == "s":
                    # fall-back for violations that depend on state carried inside the worker's interpreter (object addresses,
                    # allocator state, ...): the unminimised plan together with the runs that preceded it in this worker
                    rec["prefix"] = dict(master=master, lo=a.lo, idx=idx, tier=a.tier, original_plan=plan, original_violation=dict(v))
                os.makedirs(REPLAYS, exist_ok=True)
                path = os.path.join(REPLAYS, f"{prop.pid}-{tag}{idx}-{master}.json")
                with open(path, "w") as f:
                    json.dump(rec, f, indent=1, sort_keys=True, default=str)
                out["violations"].append(dict(path=path, cls=list(cls), count=1, detail=str(mv.get("detail"))[:300], shape=rec["shape"]))
            else:
                for r in out["violations"]:
                    if tuple(r["cls"]) == cls:
                        r["count"] += 1
                        break
        return res

    if a.det:
        # determinism witness: the first n seeded runs in reverse order, different hash seed / interpreter
        for idx in reversed(range(a.lo, a.hi)):
            seed = P.run_seed(master, prop.pid, idx)
            res = one(prop.gen(seed, a.tier), idx, "s")
            if res is not None:
                out["digests"][str(idx)] = res.digest
            out["runs"] += 1
    else:
        enum = prop.enumerate(a.tier)
        for j, plan in enumerate(enum):
            if j % a.nworkers != a.wid:
                continue
            one(plan, j, "e")
            out["enum_runs"] += 1
        for idx in range(a.lo, a.hi):
            if time.time() - t0 > a.budget:
                out["stopped_early"] = True
                break
            seed = P.run_seed(master, prop.pid, idx)
            plan = prop.gen(seed, a.tier)
            res = one(plan, idx, "s")
            if res is not None and idx < a.detn:
                out["digests"][str(idx)] = res.digest
            if res is not None and idx - a.lo < 3:
                out.setdefault("_first", []).append((idx, plan, res.digest))
            out["runs"] += 1
        # same interpreter, different position in the batch
        for idx, plan, dg in out.pop("_first", []):
            try:
                res2 = prop.execute(plan)
                if res2.digest != dg:
                    out["selfcheck_mismatch"].append(idx)
            except BaseException as e:
                out["harness_errors"].append(dict(idx=idx, tag="recheck", error=repr(e)))
    out["shapes"] = sorted(out["shapes"])
    out["wall"] = time.time() - t0
    for k in ("counters", "probes", "cover", "inconclusive"):
        out[k] = dict(out[k])
    with open(a.out, "w") as f:
        json.dump(out, f, default=str)
    return 0


# --------------------------------------------------------------------------- replay

def replay_main(a):
    prop = load_prop(a.prop)
    prop.setup()
    with open(a.replay) as f:
        rec = json.load(f)
    plan = rec["plan"] if "plan" in rec else rec
    want = rec.get("violation")
    if (a.with_prefix or rec.get("needs_prefix")) and rec.get("prefix"):
        from . import prop as P
        px = rec["prefix"]
        for i in range(px["lo"], px["idx"]):
            try:
                prop.execute(prop.gen(P.run_seed(px["master"], prop.pid, i), px["tier"]))
            except Exception:
                pass
        plan = px["original_plan"]
        want = px["original_violation"]
    res = prop.execute(plan)
    got = [dict(v) for v in res.violations]
    same = None
    if want is not None:
        wcls = (want.get("clause"), want.get("kind"), want.get("site"))
        same = any(v.cls() == wcls for v in res.violations)
    print(json.dumps(dict(property=prop.pid, digest=res.digest, recorded_digest=rec.get("digest"),
                          violations=got, reproduces=same), indent=1, default=str))
    if res.violations:
        print(f"VIOLATION property={prop.pid} replay={os.path.abspath(a.replay)}")
        return 1
    return 0


# --------------------------------------------------------------------------- parent side

def read_known():
    known, fixed = [], []
    if os.path.exists(KNOWN):
        for line in open(KNOWN):
            line = line.strip()
            if line.startswith("known:"):
                body, _, prose = line[6:].partition(" -- ")
                kv = dict(x.split("=", 1) for x in body.split() if "=" in x)
                kv["prose"] = prose.strip()
                known.append(kv)
            elif line.startswith("fixed:"):
                fixed.append(line)
    return known, fixed


def match_known(known, pid, rec):
    v = rec["violation"]
    for k in known:
        if (k.get("property") == pid and k.get("clause") == str(v.get("clause")) and k.get("kind") == str(v.get("kind"))
                and k.get("site") == str(v.get("site")) and k.get("shape") == str(rec.get("shape"))):
            return k
    return None


def parent_main(a):
    t0 = time.time()
    prop = load_prop(a.prop)
    pid = prop.pid
    tier = a.tier
    master = int(os.environ.get("VERIF_SEED", "0") or 0)
    cfg = dict(prop.tiers[tier])
    runs = a.runs or cfg["runs"]
    budget = a.budget or cfg["budget_s"]
    W = a.workers or min(16, os.cpu_count() or 4)
    W = max(1, min(W, runs))
    detn = min(DET_SEEDS[tier], runs)
    os.makedirs(REPLAYS, exist_ok=True)
    for fn in os.listdir(REPLAYS):  # replays of earlier runs of this check are stale
        if fn.startswith(pid + "-"):
            os.unlink(os.path.join(REPLAYS, fn))
    tmpd = os.path.join(OUT, f"work-{pid}-{os.getpid()}")
    os.makedirs(tmpd, exist_ok=True)
    env = dict(os.environ, PYTHONHASHSEED="0", PYTHONPATH=os.path.join(VERIF, "sim"))
    procs = []
    per = -(-runs // W)
    base = [sys.executable, "-u", "-m", "ssesim", pid, "--tier", tier, "--internal-worker", "--master", str(master),
            "--nworkers", str(W), "--detn", str(detn), "--budget", str(budget)]
    for w in range(W):
        lo, hi = w * per, min(runs, (w + 1) * per)
        outp = os.path.join(tmpd, f"w{w}.json")
        cmd = base + ["--wid", str(w), "--lo", str(lo), "--hi", str(hi), "--out", outp]
        if W >= 4 and w == W - 1:
            cmd = cmd[:1] + ["-O"] + cmd[1:]  # one worker's share runs the way `python -O` / PYTHONOPTIMIZE=1 deployments do
        procs.append((f"w{w}", subprocess.Popen(cmd, env=env, cwd=VERIF, stdout=subprocess.PIPE, stderr=subprocess.STDOUT), outp))
    # determinism witness: fresh interpreter, other hash seed, reversed order, alone
    outp = os.path.join(tmpd, "det.json")
    cmd = base + ["--wid", "0", "--lo", "0", "--hi", str(detn), "--out", outp, "--det"]
    # (same PYTHONHASHSEED as the workers: the code under test itself depends on it -- DP17 pickles a set of identifiers -- so
    # the hash seed is part of the pinned environment, not something a run may vary)
    procs.append(("det", subprocess.Popen(cmd, env=env, cwd=VERIF, stdout=subprocess.PIPE, stderr=subprocess.STDOUT), outp))

    hard = budget * 3 + 300
    results = {}
    harness_fail = []
    for name, p, outp in procs:
        try:
            so, _ = p.communicate(timeout=max(5, hard - (time.time() - t0)))
        except subprocess.TimeoutExpired:
            p.kill()
            so, _ = p.communicate()
            harness_fail.append(f"worker {name} timed out after {hard}s")
            continue
        if p.returncode != 0 or not os.path.exists(outp):
            harness_fail.append(f"worker {name} exit {p.returncode}: {so.decode(errors='replace')[-1500:]}")
            continue
        with open(outp) as f:
            results[name] = json.load(f)
    agg = dict(runs=0, enum_runs=0, counters=collections.Counter(), probes=collections.Counter(), cover=collections.Counter(),
               inconclusive=collections.Counter(), sim_seconds=0.0, events=0, shapes=set(), nontrivial=0, violations=[], samples=[],
               stopped_early=False)
    digests = {}
    for name, r in results.items():
        for he in r.get("harness_errors", []):
            harness_fail.append(f"{name}: harness error in run {he.get('tag')}{he.get('idx')}: {he.get('error')}")
        if r.get("selfcheck_mismatch"):
            harness_fail.append(f"HARNESS nondeterminism: {name} runs {r['selfcheck_mismatch']} differ when repeated in one interpreter")
        if name == "det":
            continue
        agg["runs"] += r["runs"]
        agg["enum_runs"] += r["enum_runs"]
        for k in ("counters", "probes", "cover", "inconclusive"):
            agg[k].update(r[k])
        agg["sim_seconds"] += r["sim_seconds"]
        agg["events"] += r["events"]
        agg["shapes"].update(r["shapes"])
        agg["nontrivial"] += r["nontrivial"]
        agg["violations"].extend(r["violations"])
        agg["samples"].extend(r["samples"])
        agg["stopped_early"] |= r["stopped_early"]
        digests.update(r["digests"])
    det_checked = 0
    if "det" in results:
        for idx, dg in results["det"]["digests"].items():
            if idx in digests:
                det_checked += 1
                if digests[idx] != dg:
                    harness_fail.append(f"HARNESS nondeterminism: run {idx} digest {digests[idx]} vs {dg} in a fresh interpreter")

    # confirm reported violations by replaying them in a fresh interpreter: per violation class one VIOLATION line
    # (smallest replay), per matching known finding one KNOWN-FINDING line
    known, fixed = read_known()
    lines = []
    exit_code = 0
    nviol = 0
    reported_known = set()

    def confirm(path, with_prefix=False):
        # (a replay file found under -O re-executes itself under -O, see main())
        rp = subprocess.run([sys.executable, "-u", "-m", "ssesim", pid, "--replay", path] + (["--with-prefix"] if with_prefix else []),
                            env=env, cwd=VERIF, capture_output=True, timeout=1800)
        text = rp.stdout.decode(errors="replace")
        try:
            rep = json.loads(text[:text.rindex("}") + 1])
        except Exception:
            rep = {}
        if rp.returncode == 1 and rep.get("reproduces"):
            return None
        return f"replay of {path} did not reproduce (exit {rp.returncode}): {text[-500:]} {rp.stderr.decode(errors='replace')[-500:]}"

    by_cls = {}
    for v in agg["violations"]:
        with open(v["path"]) as f:
            rec = json.load(f)
        v["known"] = match_known(known, pid, rec)
        by_cls.setdefault(tuple(v["cls"]), []).append(v)
    for cls, entries in sorted(by_cls.items(), key=lambda kv: str(kv[0])):
        others = sorted((v for v in entries if v["known"] is None), key=lambda v: os.path.getsize(v["path"]))
        for v in entries:
            k = v["known"]
            if k is None:
                continue
            key = (k.get("clause"), k.get("kind"), k.get("site"), k.get("shape"))
            if key in reported_known:
                continue
            err = confirm(v["path"])
            if err:
                harness_fail.append(err)
                continue
            reported_known.add(key)
            lines.append(f"KNOWN-FINDING: property={pid} {k['prose']} [clause={k.get('clause')} kind={k.get('kind')} site={k.get('site')} shape={k.get('shape')}]")
        if others:
            errs = []
            for v in others[:10]:
                err = confirm(v["path"])
                if err is None:
                    if errs:
                        lines.append(f"  note: {len(errs)} smaller replay(s) of this class did not reproduce in a fresh interpreter (state carried "
                                     f"over between runs of one worker?); the one reported does")
                    cnt = sum(x["count"] for x in others)
                    nviol += cnt
                    exit_code = 1
                    lines.append(f"VIOLATION property={pid} replay={v['path']}")
                    lines.append(f"  class={list(cls)} occurrences={cnt} {v['detail']}")
                    break
                errs.append(err)
            else:
                # nothing reproduces from a single plan: does the first record reproduce together with the runs that preceded it?
                done = False
                for v in others[:2]:
                    with open(v["path"]) as f:
                        rec = json.load(f)
                    if rec.get("prefix") and confirm(v["path"], with_prefix=True) is None:
                        rec["needs_prefix"] = True
                        with open(v["path"], "w") as f:
                            json.dump(rec, f, indent=1, sort_keys=True, default=str)
                        cnt = sum(x["count"] for x in others)
                        nviol += cnt
                        exit_code = 1
                        lines.append(f"VIOLATION property={pid} replay={v['path']}")
                        lines.append(f"  class={list(cls)} occurrences={cnt} {v['detail']}")
                        lines.append(f"  note: reproduces only after the {rec['prefix']['idx'] - rec['prefix']['lo']} runs that preceded it in its worker "
                                     f"(state carried inside the interpreter, e.g. object addresses); the replay file replays those runs first")
                        done = True
                        break
                if not done:
                    harness_fail.extend(errs)

    wall = time.time() - t0
    total = agg["runs"] + agg["enum_runs"]
    probes_zero = [n for n in prop.probe_names if not agg["probes"].get(n)]
    cov = dict(
        evaluations=total,
        distinct_nontrivial=len(agg["shapes"]),
        rule=prop.rule,
        samples=agg["samples"][:3],
        seeded_runs=agg["runs"], enumerated_runs=agg["enum_runs"], exhaustive=bool(getattr(prop, "exhaustive", False)),
        nontrivial_runs=agg["nontrivial"],
        runs_per_hour=int(total / wall * 3600) if wall > 0 else 0,
        simulated_seconds=round(agg["sim_seconds"], 1),
        events_executed=agg["events"],
        fault_kinds_fired={k: v for k, v in sorted(agg["counters"].items())},
        probes={k: v for k, v in sorted(agg["probes"].items())},
        probes_never_hit=probes_zero,
        coverage_matrix={k: v for k, v in sorted(agg["cover"].items())},
        inconclusive_runs=dict(agg["inconclusive"]),
        determinism=dict(seeds_compared_fresh_interpreter=det_checked, per_worker_repeats=3 * W),
        workers=W, workers_started_with_python_O=(1 if W >= 4 else 0), stopped_early_on_budget=agg["stopped_early"],
        real_vs_stub=prop.real_stub,
        known_findings_reobserved=sorted(str(k) for k in reported_known),
        repo=os.path.realpath(os.environ.get("VERIF_REPO", "/repo")),
    )
    ev = dict(property_id=pid, tier=tier, seed=master, level=prop.level, coverage=cov, assumptions=list(prop.assumptions),
              wall_s=round(wall, 2), violations=nviol)
    if not harness_fail and total > 0 and not os.environ.get("VERIF_NO_EVIDENCE"):
        os.makedirs(EVIDENCE, exist_ok=True)
        with open(os.path.join(EVIDENCE, f"{pid}.json"), "w") as f:
            json.dump(ev, f, indent=1, sort_keys=True, default=str)
    try:
        import shutil
        shutil.rmtree(tmpd, ignore_errors=True)
    except Exception:
        pass
    print(f"[{pid} {tier}] seed={master} runs={agg['runs']} enum={agg['enum_runs']} distinct_nontrivial={len(agg['shapes'])} "
          f"sim_s={agg['sim_seconds']:.0f} wall={wall:.1f}s faults={dict(agg['counters'])}")
    if probes_zero:
        print(f"[{pid}] WARNING probes never hit: {probes_zero}")
    for ln in lines:
        print(ln)
    if harness_fail:
        for h in harness_fail[:10]:
            print("HARNESS-FAILURE:", h)
        # a violation that was confirmed by replay stands (exit 1) whatever else went wrong; without one, a harness failure
        # is never a verdict and never exit 0
        return 1 if exit_code == 1 else 2
    return exit_code


def main(argv=None):
    ap = argparse.ArgumentParser(prog="check")
    ap.add_argument("prop")
    ap.add_argument("--tier", default=os.environ.get("VERIF_TIER") or "quick", choices=["quick", "thorough"])
    ap.add_argument("--replay")
    ap.add_argument("--runs", type=int)
    ap.add_argument("--budget", type=float)
    ap.add_argument("--workers", type=int)
    ap.add_argument("--internal-worker", action="store_true")
    ap.add_argument("--with-prefix", action="store_true")
    ap.add_argument("--det", action="store_true")
    ap.add_argument("--master", type=int, default=0)
    ap.add_argument("--wid", type=int, default=0)
    ap.add_argument("--nworkers", type=int, default=1)
    ap.add_argument("--lo", type=int, default=0)
    ap.add_argument("--hi", type=int, default=0)
    ap.add_argument("--detn", type=int, default=0)
    ap.add_argument("--out")
    a = ap.parse_args(argv)
    a.prop = a.prop.upper()
    if a.prop not in PROPS:
        print(f"unknown or unclaimed property {a.prop}; claimed: {PROPS}")
        return 2
    if os.environ.get("PYTHONHASHSEED") is None:
        os.environ["PYTHONHASHSEED"] = "0"
        os.execve(sys.executable, [sys.executable, "-u", "-m", "ssesim"] + (argv if argv is not None else sys.argv[1:]),
                  dict(os.environ, PYTHONPATH=os.path.join(VERIF, "sim")))
    if a.internal_worker:
        return worker_main(a)
    if a.replay:
        try:
            with open(a.replay) as f:
                want_opt = bool(json.load(f).get("pyopt"))
        except Exception:
            want_opt = False
        if want_opt and not sys.flags.optimize:
            os.execve(sys.executable, [sys.executable, "-O", "-u", "-m", "ssesim"] + (argv if argv is not None else sys.argv[1:]),
                      dict(os.environ, PYTHONPATH=os.path.join(VERIF, "sim")))
        return replay_main(a)
    return parent_main(a)
