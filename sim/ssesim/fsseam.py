"""ssesim.fsseam -- every file-system *mutation* under the scratch root is an event.

In-scope opens in a writing mode are served by the pure-Python `_pyio` stack whose
`os` is a proxy, so that open / write / ftruncate / close are visible (and
cuttable) at system-call granularity.  mkdir, unlink, rmdir, rename, replace,
truncate are wrapped directly.  Reads are not touched.
"""
import builtins
import io
import os
import sys
import types
import _pyio

from .core import PROC, CONN, SimCrash

_REAL = dict(open=builtins.open, io_open=io.open, mkdir=os.mkdir, unlink=os.unlink, remove=os.remove,
             replace=os.replace, rename=os.rename, rmdir=os.rmdir, truncate=os.truncate)
_REAL_OS = os


class Seam:
    """singleton per interpreter; `attach(sim, ...)` per run"""

    def __init__(self, root, repo):
        self.root = os.path.realpath(root)
        self.repo = os.path.realpath(repo)
        self.logdir = os.path.join(self.root, "log") + os.sep  # the repo's log files are not service state
        self.enabled = False
        self.sim = None
        self.fds = {}
        self.bufsize = 8192
        self.crash_at = []  # pending crash points: [role, 'before'|'after', k]
        self.fired = []
        self.fail_read = None  # (role, file name): the next read-open of that file by that role fails once
        self.fail_write = None  # [role, skip, torn]: the (skip+1)-th next write / create by that role fails once with ENOSPC (disk full)
        self.separate_hosts = False  # server and client on different machines: neither sees the other's directory
        self.on_event = None  # callback(rec) for property-level observation
        self.installed = False
        self.events = []
        self.mtimes = {}  # absolute path -> modification time on the simulated wall clock
        self.clock = None  # the simulated wall clock (set by the front-end run); None = real time stamps are left alone
        self.mtime_gran = 0  # time-stamp granularity of the simulated file system in seconds (0 = nanoseconds, always distinct)
        self.t_attach = 0.0
        self._mt_k = 0

    # ---- per run
    def attach(self, sim, bufsize=8192):
        self.sim = sim
        self.enabled = True
        self.fds.clear()
        self.bufsize = bufsize
        self.crash_at = []
        self.fired = []
        self.fail_read = None
        self.fail_write = None
        self.separate_hosts = False
        self.on_event = None
        self.events = []
        self.mtimes = {}
        self.clock = None
        self.mtime_gran = 0
        self._mt_k = 0

    def detach(self):
        self.enabled = False
        self.sim = None
        self.clock = None
        self.on_event = None
        self.crash_at = []
        self.fail_read = None
        self.fail_write = None
        self.separate_hosts = False

    # ---- helpers
    def inscope(self, p):
        if not self.enabled:
            return False
        try:
            p = os.fspath(p)
        except TypeError:
            return False
        if isinstance(p, bytes):
            p = p.decode()
        p = os.path.abspath(p)
        return p.startswith(self.root + os.sep) and not p.startswith(self.logdir)

    def hidden(self, path):
        """separate-hosts deployment: is `path` on the other machine for the process that is running now?"""
        if not self.separate_hosts or self.sim is None:
            return False
        p = PROC.get()
        if p is None:
            return False
        try:
            path = os.path.abspath(os.fspath(path))
        except TypeError:
            return False
        if isinstance(path, bytes):
            path = path.decode()
        if not path.startswith(self.root + os.sep):
            return False
        rel = path[len(self.root) + 1:]
        top = rel.split(os.sep, 1)[0]
        if top == "log":
            return False
        if p.role == "server":
            return top == "client"
        if p.role == "client":
            return top != "client"
        return False

    def _site(self):
        """the repo handler on the stack (handle_* / close_service / clean_*), else the innermost repo function
        outside the file managers"""
        f = sys._getframe(2)
        fm = None
        inner = None
        while f is not None:
            fn = f.f_code.co_filename
            if fn.startswith(self.repo):
                name = f.f_code.co_name
                if "file_manager" in fn:
                    fm = fm or name
                else:
                    inner = inner or name
                    if name.startswith("handle_") or name in ("close_service",) or name.startswith("clean_"):
                        return name, fm
            f = f.f_back
        return inner, fm

    def event(self, kind, path, n=None):
        sim = self.sim
        p = PROC.get()
        if sim is None or p is None:
            return None  # harness' own file operations are not events
        if sim.loop.void:
            raise SimCrash("void")
        if not p.alive:
            raise SimCrash("dead process")
        k = sim.role_k.get(p.role, 0)
        rel = os.path.relpath(os.fspath(path), self.root)
        site, fm = self._site()
        rec = dict(proc=p.name, role=p.role, k=k, kind=kind, path=rel, n=n, site=site, fm=fm, conn=CONN.get(), t=round(sim.loop._vt, 6))
        if self._armed(p.role, "before", k):
            rec["crash"] = "before"
            self._record(rec, applied=False)
            sim.kill(p)
            raise SimCrash(f"before {k} {kind} {rel}")
        sim.role_k[p.role] = k + 1
        fw = self.fail_write
        if fw is not None and fw[0] == p.role and (kind == "write" or "creat" in kind or kind == "mkdir"):
            if fw[1] > 0:
                fw[1] -= 1
            else:
                # injected system-call failure: the disk is full for this one call (the process survives and sees OSError)
                self.fail_write = None
                sim.count("write_error")
                sim.log.append(("write_error", p.role, kind))
                rec["enospc"] = True
                self._record(rec, applied=False)
                import errno
                e = OSError(errno.ENOSPC, "No space left on device (injected)", os.fspath(path))
                e.sim_torn = bool(fw[2]) if len(fw) > 2 else False
                raise e
        rec["_p"] = p
        return rec

    def _armed(self, role, when, k):
        ca = self.crash_at
        if not ca:
            return False
        for spec in ca:
            if spec[0] == role and spec[1] == when and spec[2] == k:
                ca.remove(spec)
                self.fired.append(spec)
                return True
        return False

    def after(self, rec):
        if rec is None:
            return
        p = rec.pop("_p")
        if self._armed(p.role, "after", rec["k"]):
            rec["crash"] = "after"
            self._record(rec, applied=True)
            self.sim.kill(p)
            raise SimCrash(f"after {rec['k']} {rec['kind']} {rec['path']}")
        self._record(rec, applied=True)

    def _record(self, rec, applied):
        rec.pop("_p", None)
        sim = self.sim
        sim.count("disk_event")
        path = rec["path"].split(os.sep)
        norm = "/".join(("<sid>" if len(x) == 64 else x) for x in path)
        sim.log.append(("disk", rec["role"], rec["k"], rec["kind"], norm, rec["n"], rec.get("crash")))
        rec["applied"] = applied
        if applied and self.clock is not None:
            self._stamp(rec)
        self.events.append(rec)
        if self.on_event is not None:
            self.on_event(rec)

    # ---- time stamps: the simulated file system stamps files from the simulated wall clock, at the run's granularity
    def now_stamp(self):
        t = self.clock()
        g = self.mtime_gran
        if g:
            return (t // g) * g
        self._mt_k += 1
        return t + self._mt_k * 1e-7  # a fine-grained file system: two modifications never carry the same stamp

    def _stamp(self, rec):
        kind = rec["kind"]
        path = os.path.join(self.root, rec["path"])
        if kind in ("replace", "rename"):
            return  # done by the wrapper, which knows the source
        now = self.now_stamp()
        if kind in ("write", "ftruncate", "truncate", "mkdir") or "trunc" in kind or "creat" in kind:
            self.mtimes[path] = now
        if kind in ("unlink", "rmdir"):
            self.mtimes.pop(path, None)
        if kind in ("mkdir", "unlink", "rmdir") or "creat" in kind:
            self.mtimes[os.path.dirname(path)] = now

    def _moved(self, src, dst):
        if self.clock is None:
            return
        src, dst = os.path.abspath(os.fspath(src)), os.path.abspath(os.fspath(dst))
        now = self.now_stamp()
        pre = src + os.sep
        for k in [k for k in self.mtimes if k == src or k.startswith(pre)]:
            self.mtimes[dst + k[len(src):]] = self.mtimes.pop(k)  # a rename keeps the time stamp of what is moved
        self.mtimes.setdefault(dst, self.t_attach)
        self.mtimes[os.path.dirname(src)] = now
        self.mtimes[os.path.dirname(dst)] = now

    def _restamp(self, path, st):
        """stat result with the simulated modification time"""
        try:
            ap = os.path.abspath(os.fspath(path))
        except TypeError:
            return st
        if isinstance(ap, bytes):
            ap = ap.decode()
        if not (ap.startswith(self.root + os.sep) and not ap.startswith(self.logdir)):
            return st
        t = self.mtimes.get(ap, self.t_attach)
        cls, (tup, extra) = st.__reduce__()
        tup = list(tup)
        tup[8] = int(t)
        extra = dict(extra)
        extra["st_mtime"] = float(t)
        extra["st_mtime_ns"] = int(round(t * 1e9))
        return cls(tuple(tup), extra)

    # ---- installation (once per interpreter)
    def install(self):
        if self.installed:
            return
        self.installed = True
        seam = self

        class OsProxy(types.ModuleType):
            def __getattr__(s, name):
                return getattr(_REAL_OS, name)

        px = OsProxy("os_proxy")

        def s_open(path, flags, mode=0o777, **kw):
            wr = flags & (os.O_WRONLY | os.O_RDWR)
            if wr and seam.inscope(path):
                kind = "open"
                if flags & os.O_TRUNC:
                    kind += "+trunc"
                if flags & os.O_CREAT and not os.path.exists(path):
                    kind += "+creat"
                rec = seam.event(kind, path)
                fd = _REAL_OS.open(path, flags, mode, **kw)
                seam.fds[fd] = os.fspath(path)
                seam.after(rec)
                return fd
            return _REAL_OS.open(path, flags, mode, **kw)

        def s_write(fd, data):
            path = seam.fds.get(fd)
            if path is not None and seam.enabled:
                try:
                    rec = seam.event("write", path, len(data))
                except OSError as e:
                    if getattr(e, "sim_torn", False) and len(data) > 1:
                        _REAL_OS.write(fd, bytes(data[:len(data) // 2]))  # part of the data made it to the disk before it was full
                    raise
                n = _REAL_OS.write(fd, data)
                seam.after(rec)
                return n
            return _REAL_OS.write(fd, data)

        def s_close(fd):
            seam.fds.pop(fd, None)
            return _REAL_OS.close(fd)

        def s_ftruncate(fd, n):
            path = seam.fds.get(fd)
            if path is not None and seam.enabled:
                rec = seam.event("ftruncate", path, n)
                r = _REAL_OS.ftruncate(fd, n)
                seam.after(rec)
                return r
            return _REAL_OS.ftruncate(fd, n)

        px.open, px.write, px.close, px.ftruncate = s_open, s_write, s_close, s_ftruncate
        _pyio.os = px

        def sim_open(file, mode="r", buffering=-1, *a, **kw):
            if seam.separate_hosts and not isinstance(file, int) and seam.hidden(file):
                raise FileNotFoundError(2, "No such file or directory (other host)", os.fspath(file))
            fr = seam.fail_read
            if fr is not None and not isinstance(file, int) and not any(c in mode for c in "wax+") and seam.inscope(file):
                p = PROC.get()
                if p is not None and p.role == fr[0] and os.path.basename(os.fspath(file)) == fr[1] and len(fr) > 2 and fr[2] > 0:
                    seam.fail_read = (fr[0], fr[1], fr[2] - 1)  # not this read yet: the (skip+1)-th matching read fails
                elif p is not None and p.role == fr[0] and os.path.basename(os.fspath(file)) == fr[1]:
                    # injected system-call failure: one read-open of this file fails (EMFILE), once
                    seam.fail_read = None
                    seam.sim.count("read_error")
                    seam.sim.log.append(("read_error", p.role, fr[1]))
                    import errno
                    raise OSError(errno.EMFILE, "Too many open files (injected)", os.fspath(file))
            if isinstance(file, int) or not seam.inscope(file) or not any(c in mode for c in "wax+"):
                return _REAL["io_open"](file, mode, buffering, *a, **kw)
            p = PROC.get()
            if p is None or seam.sim is None:
                return _REAL["io_open"](file, mode, buffering, *a, **kw)
            if seam.sim.loop.void or not p.alive:
                raise SimCrash("dead process")
            if buffering == -1:
                buffering = seam.bufsize
            return _pyio.open(file, mode, buffering, *a, **kw)

        builtins.open = sim_open
        io.open = sim_open

        def wrap1(name):
            real = _REAL[name]

            def f(path, *a, **kw):
                if seam.separate_hosts and seam.hidden(path):
                    raise FileNotFoundError(2, "No such file or directory (other host)", os.fspath(path))
                if seam.inscope(path):
                    rec = seam.event(name if name != "remove" else "unlink", path)
                    r = real(path, *a, **kw)
                    seam.after(rec)
                    return r
                return real(path, *a, **kw)
            f.__name__ = name
            return f

        os.mkdir = wrap1("mkdir")
        os.unlink = wrap1("unlink")
        os.remove = wrap1("remove")
        os.rmdir = wrap1("rmdir")
        os.truncate = wrap1("truncate")

        def wrap2(name):
            real = _REAL[name]

            def f(src, dst, *a, **kw):
                if seam.separate_hosts and (seam.hidden(src) or seam.hidden(dst)):
                    raise FileNotFoundError(2, "No such file or directory (other host)", os.fspath(dst))
                if seam.inscope(dst) or seam.inscope(src):
                    rec = seam.event(name, dst)
                    r = real(src, dst, *a, **kw)
                    seam._moved(src, dst)
                    seam.after(rec)
                    return r
                return real(src, dst, *a, **kw)
            f.__name__ = name
            return f

        os.replace = wrap2("replace")
        os.rename = wrap2("rename")

        # what the other machine has is invisible in a separate-hosts deployment: stat fails, listings omit it
        real_stat, real_lstat, real_listdir, real_scandir = os.stat, os.lstat, os.listdir, os.scandir

        def s_stat(path, *a, **kw):
            if seam.separate_hosts and not isinstance(path, int) and seam.hidden(path):
                raise FileNotFoundError(2, "No such file or directory (other host)", os.fspath(path))
            st = real_stat(path, *a, **kw)
            if seam.clock is not None and seam.enabled and not isinstance(path, int):
                return seam._restamp(path, st)
            return st

        def s_lstat(path, *a, **kw):
            if seam.separate_hosts and seam.hidden(path):
                raise FileNotFoundError(2, "No such file or directory (other host)", os.fspath(path))
            st = real_lstat(path, *a, **kw)
            if seam.clock is not None and seam.enabled:
                return seam._restamp(path, st)
            return st

        def s_listdir(path="."):
            names = real_listdir(path)
            if seam.separate_hosts and not isinstance(path, int) and PROC.get() is not None:
                names = [n for n in names if not seam.hidden(os.path.join(os.fspath(path), n if isinstance(n, str) else n.decode()))]
            return names

        class _Scan:
            def __init__(self, it, base):
                self.it, self.base = it, base

            def __iter__(self):
                return self

            def __next__(self):
                while True:
                    e = next(self.it)
                    if not seam.hidden(e.path):
                        return e

            def close(self):
                self.it.close()

            def __enter__(self):
                return self

            def __exit__(self, *exc):
                self.close()

        def s_scandir(path="."):
            it = real_scandir(path)
            if seam.separate_hosts and not isinstance(path, int) and PROC.get() is not None:
                return _Scan(it, path)
            return it

        os.stat, os.lstat, os.listdir, os.scandir = s_stat, s_lstat, s_listdir, s_scandir
