"""ssesim.fe -- shared harness for the frontend properties: one simulated deployment per run
(real server entry point, real websockets, real client), observation points below the repo's code,
raw-protocol actors, scheme worlds."""
import asyncio
import copy
import os
import pickle

from . import core, world
from .core import Sim, PROC, CONN

CUR = None  # the Run in progress (observers append to it)
_installed = False

SCHEMES = ["CGKO06.SSE1", "CGKO06.SSE2", "CJJ14.PiBas", "CJJ14.PiPack", "CJJ14.PiPtr", "CJJ14.Pi2Lev", "CT14.Pi",
           "ANSS16.Scheme3", "DP17.Pi"]


def install_observers():
    """wrap websockets' send / recv / connection_lost (below the repo's comm layer)"""
    global _installed
    if _installed:
        return
    _installed = True
    import websockets.legacy.protocol as wsp
    import websockets.legacy.server as wss
    orig_send, orig_recv, orig_lost = (wsp.WebSocketCommonProtocol.send, wsp.WebSocketCommonProtocol.recv,
                                       wsp.WebSocketCommonProtocol.connection_lost)

    def decode(message):
        try:
            d = pickle.loads(message)
            t = d.get("type")
            okf = None
            if t in ("config", "upload_edb", "init"):
                okf = pickle.loads(d["content"]).get("ok")
            elif t == "result":
                okf = True
                try:
                    x = pickle.loads(d["content"])
                    if isinstance(x, dict) and x.get("ok") is False:
                        okf = False
                except Exception:
                    pass
            return t, okf, d
        except Exception:
            return None, None, None

    async def send(self, message):
        run = CUR
        if run is not None and isinstance(self, wss.WebSocketServerProtocol) and isinstance(message, (bytes, bytearray)):
            t, okf, d = decode(message)
            if t is not None:
                run.ev("s_send", getattr(self, "_sim_cid", None), t, okf, self.state.name)
        return await orig_send(self, message)

    async def recv(self):
        m = await orig_recv(self)
        run = CUR
        if run is not None and isinstance(self, wss.WebSocketServerProtocol):
            cid = getattr(self, "_sim_cid", None)
            if not getattr(self, "_sim_first", False):
                self._sim_first = True
                run.ev("s_open", cid)
            else:
                run.ev("s_recv", cid)
        return m

    def lost(self, exc):
        run = CUR
        if run is not None and isinstance(self, wss.WebSocketServerProtocol):
            run.ev("s_closed", getattr(self, "_sim_cid", None))
        return orig_lost(self, exc)

    wsp.WebSocketCommonProtocol.send = send
    wsp.WebSocketCommonProtocol.recv = recv
    wsp.WebSocketCommonProtocol.connection_lost = lost


class Run:
    """one simulated deployment"""

    def __init__(self, seed, knobs, wipe=True):
        global CUR
        self.seam = world.setup_frontend()
        install_observers()
        world.gc_point()  # whatever the previous run left behind is finalised before this run's world exists
        if wipe:
            world.wipe_sse()
        world.restore_repo_state()
        world.seed_randomness(seed)
        net = knobs.get("net") or {}
        self.sim = Sim(net_seed=core.h64(seed, "net"), net=net)
        self.knobs = knobs
        self.events = []  # (kind, ...) with the virtual time appended; index = global sequence number
        self.seam.attach(self.sim, bufsize=knobs.get("bufsize", 8192))
        self.seam.separate_hosts = bool(knobs.get("separate_hosts"))
        self.server = None
        self.boots = 0
        try:
            self._fds0 = len(os.listdir("/proc/self/fd"))
        except OSError:
            self._fds0 = None
        self.fd_growth = 0
        # the wall clock follows the simulated clock (code that looks at time.time() / file ages sees virtual days pass)
        import time as _time
        self._real_time = _time.time
        t0 = self._real_time()
        loop = self.sim.loop
        self.wall_off = 0.0  # steps of the wall clock (knob clock_steps): the wall clock is not monotonic, the loop clock is
        _time.time = lambda: t0 + loop._vt + self.wall_off
        # ... and the files under ~/.sse are stamped from it, at the granularity of this run's file system (knob mtime_gran)
        self.seam.clock = _time.time
        self.seam.t_attach = t0
        self.seam.mtime_gran = knobs.get("mtime_gran") or 0
        if self.seam.mtime_gran:
            self.sim.count("coarse_mtime_run")
        CUR = self

    def ev(self, *a):
        self.events.append(a + (round(self.sim.loop._vt, 6),))
        self.sim.log.append(("ev",) + a)
        return len(self.events) - 1

    def boot_server(self):
        self.boots += 1
        p = self.sim.new_proc(f"server{self.boots}" if self.boots > 1 else "server", skew=self.knobs.get("skew", 1.0), role="server")
        world.SERVER_PORTS[:] = [8001, 8002] if self.knobs.get("two_listeners") else [8001]
        self.sim.spawn(p, world.server_main)
        self.server = p
        self.ev("boot", p.name)
        return p

    def kill_server(self):
        self.ev("kill", self.server.name)
        self.sim.kill(self.server)

    def maybe_gc(self, si):
        """a plan-named garbage collection point (knob gc_every: 0 = never, k = before every k-th step)"""
        k = self.knobs.get("gc_every", 0)
        if k and si % k == 0:
            u = core.unit(self.sim.net_seed, "gc-generation", si)
            world.gc_point(0 if u < 0.5 else 1 if u < 0.7 else 2)
            self.sim.count("gc_point")
        d = (self.knobs.get("clock_steps") or {}).get(str(si))
        if d:
            # the machine's wall clock is stepped (NTP correction, VM resume, operator): time.time() and new file stamps jump
            self.wall_off += d
            self.sim.count("clock_step_back" if d < 0 else "clock_step_forward")
            self.ev("clock_step", d)

    def finish(self):
        global CUR
        CUR = None
        import time as _time
        _time.time = self._real_time
        self.seam.detach()
        self.sim.teardown()
        if self._fds0 is not None:
            try:
                self.fd_growth = len(os.listdir("/proc/self/fd")) - self._fds0  # descriptors this run left open in the process
            except OSError:
                pass

    def sse_path(self, *parts):
        return os.path.join(world.sse_dir(), *parts)


class RawActor:
    """harness code speaking the real wire format through the real websockets client"""

    def __init__(self, run, name, sid):
        self.run, self.name, self.sid = run, name, sid
        self.ws = None
        self.init = None
        self.ctrl = 0
        self.acks = []  # message types acknowledged with ok True
        self.refused = []  # message types answered with ok False
        self.results = []  # raw result contents
        self.replies = []  # ('ack'|'refused'|'result', type) in arrival order
        self.got = asyncio.Event()
        self.closed_seen = False
        self.rx = None
        self.opened = False

    async def open(self, timeout=30, path="", port=8001):
        import websockets
        self.ws = await asyncio.wait_for(websockets.connect(f"ws://simhost:{port}" + path, max_size=None), timeout)
        self.opened = True
        await self.ws.send(pickle.dumps({"type": "init", "sid": self.sid}))
        self.rx = asyncio.ensure_future(self._rx())

    async def _rx(self):
        try:
            async for m in self.ws:
                d = pickle.loads(m)
                t = d.get("type")
                if t == "init":
                    self.init = pickle.loads(d["content"])
                    self.run.ev("c_init", self.name, self.init.get("state"))
                elif t == "control":
                    self.ctrl += 1
                    self.run.ev("c_ctrl", self.name)
                elif t in ("config", "upload_edb"):
                    c = pickle.loads(d["content"])
                    if c.get("ok"):
                        self.acks.append(t)
                        self.replies.append(("ack", t))
                        self.run.ev("c_ack", self.name, t)
                    else:
                        self.refused.append(t)
                        self.replies.append(("refused", t))
                        self.run.ev("c_refused", self.name, t)
                elif t == "result":
                    c = d["content"]
                    isref = False
                    try:
                        x = pickle.loads(c)
                        isref = isinstance(x, dict) and x.get("ok") is False
                    except Exception:
                        pass
                    if isref:
                        self.refused.append(t)
                        self.replies.append(("refused", t))
                        self.run.ev("c_refused", self.name, t)
                    else:
                        self.results.append(c)
                        self.replies.append(("result", c))
                        self.run.ev("c_result", self.name, len(c))
                self.got.set()
        except Exception:
            pass
        finally:
            self.closed_seen = True
            self.run.ev("c_closed", self.name)
            self.got.set()

    async def send(self, typ, content, sid=None, **kw):
        d = {"type": typ, "sid": sid or self.sid, "content": content}
        d.update(kw)
        try:
            await self.ws.send(pickle.dumps(d))
            return True
        except Exception:
            return False

    async def wait_change(self, pred, timeout):
        """wait until pred() or the connection is seen closed, at most `timeout` simulated seconds"""
        loop = asyncio.get_event_loop()
        end = loop.time() + timeout
        while not pred() and not self.closed_seen:
            self.got.clear()
            left = end - loop.time()
            if left <= 0:
                return False
            try:
                await asyncio.wait_for(self.got.wait(), left)
            except asyncio.TimeoutError:
                return pred()
        return pred()

    async def close(self, abort=False):
        if self.ws is None:
            return
        try:
            if abort:
                self.ws.transport.abort()
            else:
                await asyncio.wait_for(self.ws.close(), 30)
        except Exception:
            pass


# ------------------------------------------------------------------------------- scheme worlds

def default_config(scheme, n_files=None):
    import schemes
    L = schemes.load_sse_module(scheme)
    cfg = copy.deepcopy(L.SSEConfig.get_default_config())
    if scheme == "CGKO06.SSE2":
        cfg["param_n"] = max(1, n_files or 8)
    if scheme == "CGKO06.SSE1":
        cfg["param_s"] = 64
        cfg["param_dictionary_size"] = 16
    return L, cfg


def id_size(cfg):
    return cfg.get("param_identifier_size", 8)


def result_list(L, cfgobj, content):
    r = L.SSEResult.deserialize(content, cfgobj).get_result_list()
    return r


# ------------------------------------------------------------------------------- real client, driven like commands.py

_OTHER_LOOP = None


class ClientHost:
    """a simulated client process running the repo's real client `Service`, one operation at a time,
    the way frontend/client/commands.py drives it"""

    def __init__(self, run, name="client"):
        self.run = run
        self.proc = run.sim.new_proc(name, role="client")
        self.obj = None  # a client Service object kept across operations (C09), else None

    def restart(self, name):
        self.proc = self.run.sim.new_proc(name, role="client")
        self.obj = None

    async def call(self, fn, *a, **kw):
        """run fn (sync or async) inside the client process -> ('ok', v) | ('exc', e) | ('died', None)"""
        async def runner():
            r = fn(*a, **kw)
            if asyncio.iscoroutine(r):
                r = await r
            return r
        return await self.run.sim.run_in(self.proc, runner)

    # --- the operations; `keep` keeps the Service object for the next operation instead of closing it
    def _svc(self, sid, fresh=True):
        import frontend.client.services.service as csvc
        if not fresh and self.obj is not None and self.obj.sid == sid:
            return self.obj
        if self.run.knobs.get("sync_construct"):
            # the application builds its client object in plain synchronous code and only later enters an event loop with it
            # (asyncio.run): while the constructor runs there is no running loop
            import asyncio
            global _OTHER_LOOP
            if _OTHER_LOOP is None:
                _OTHER_LOOP = asyncio.new_event_loop()  # what asyncio.get_event_loop() hands to synchronous code: not the loop asyncio.run() makes later
            prev = asyncio._get_running_loop()
            asyncio._set_running_loop(None)
            asyncio.set_event_loop(_OTHER_LOOP)
            try:
                return csvc.Service(sid)
            finally:
                asyncio.set_event_loop(prev)
                asyncio._set_running_loop(prev)
        return csvc.Service(sid)

    async def create(self, cfg):
        import frontend.client.services.service as csvc

        def op():
            s = csvc.Service()
            sid = s.handle_create_config(cfg)
            self.obj = s
            return sid
        return await self.call(op)

    async def create_on(self, sid, cfg):
        def op():
            s = self._svc(sid)
            return s.handle_create_config(cfg)
        return await self.call(op)

    async def gen_key(self, sid, fresh=True):
        def op():
            s = self._svc(sid, fresh)
            s.handle_create_key()
            self.obj = s
        return await self.call(op)

    async def encrypt(self, sid, db, fresh=True):
        def op():
            s = self._svc(sid, fresh)
            s.handle_encrypt_database(db)
            self.obj = s
        return await self.call(op)

    async def _net_op(self, sid, which, arg, fresh, keep, wait=True):
        async def op():
            s = self._svc(sid, fresh)
            if keep:
                self.obj = s  # a long-lived application keeps its object also when the operation fails
            box = []

            def cb(fut):
                if not fut.cancelled() and fut.exception() is None:
                    box.append(fut.result())
            try:
                if not wait:
                    # fire and poll (the style of the client module's own main()): the call returns once the request is sent, the
                    # acknowledgement is handled by the client's receive task while the application does something else
                    if which == "upload_config":
                        await s.handle_upload_config()
                    else:
                        await s.handle_upload_encrypted_database()
                    await asyncio.sleep(45)  # (long enough for a server that is still cleaning up earlier connections of the service)
                elif which == "upload_config":
                    await s.handle_upload_config(wait=True, wait_callback_func=cb)
                elif which == "upload_index":
                    await s.handle_upload_encrypted_database(wait=True, wait_callback_func=cb)
                else:
                    await s.handle_keyword_search(arg, wait=True, wait_callback_func=cb)
                self.obj = s if keep else None
            finally:
                if not keep:
                    self.obj = None
                    await s.close_service()
            return box, s
        return await self.call(op)

    async def upload_config(self, sid, fresh=True, keep=False, wait=True):
        return await self._net_op(sid, "upload_config", None, fresh, keep, wait)

    async def upload_index(self, sid, fresh=True, keep=False, wait=True):
        return await self._net_op(sid, "upload_index", None, fresh, keep, wait)

    async def search(self, sid, kw, fresh=True, keep=False):
        return await self._net_op(sid, "search", kw, fresh, keep)

    async def drop(self):
        """discard the kept client object the way a finished command would (close_service)"""
        s, self.obj = self.obj, None
        if s is not None:
            return await self.call(s.close_service)
        return ("ok", None)


def client_snapshot():
    """content of ~/.sse/client as {relative path: bytes | decoded service_meta | None for directories}"""
    root = os.path.join(world.sse_dir(), "client")
    out = {}
    if not os.path.isdir(root):
        return {"<client directory missing>": None}
    for d, dirs, files in os.walk(root):
        dirs.sort()
        for f in sorted(files):
            p = os.path.join(d, f)
            with open(p, "rb") as fh:
                b = fh.read()
            rel = os.path.relpath(p, root)
            if f == "service_meta":
                try:
                    out[rel] = ("meta", pickle.loads(b))
                except Exception:
                    out[rel] = ("meta-raw", b)
            else:
                out[rel] = b
        for dd in dirs:
            out[os.path.relpath(os.path.join(d, dd), root) + "/"] = None
    return out
