"""ssesim.prop -- the interface a property check implements, and shared helpers."""
import hashlib
import json
import random

from . import core


class Violation(dict):
    """property, clause, kind, site, detail (+ anything the property adds)"""

    def cls(self):
        return (self.get("clause"), self.get("kind"), self.get("site"))


def V(clause, kind, detail, site=None, **extra):
    return Violation(clause=clause, kind=kind, site=site, detail=detail, **extra)


class Result:
    __slots__ = ("violations", "digest", "shape", "nontrivial", "counters", "probes", "sim_seconds",
                 "events", "trace", "cover", "inconclusive", "extra")

    def __init__(self):
        self.violations = []
        self.digest = ""
        self.shape = ""
        self.nontrivial = False
        self.counters = {}
        self.probes = {}
        self.sim_seconds = 0.0
        self.events = 0
        self.trace = None
        self.cover = {}
        self.inconclusive = None
        self.extra = {}


def digest_of(obj) -> str:
    return hashlib.sha256(repr(obj).encode()).hexdigest()[:24]


def shape_of(obj) -> str:
    return hashlib.blake2b(repr(obj).encode(), digest_size=8).hexdigest()


def run_seed(master, pid, idx):
    return core.h64("run", master, pid, idx) & 0x7FFFFFFFFFFF


def stream(seed, name):
    return random.Random(core.h64(seed, "stream", name))


def jdump(obj):
    return json.dumps(obj, sort_keys=True, separators=(",", ":"))


def hx(b):
    return bytes(b).hex()


def unhx(s):
    return bytes.fromhex(s)


class Property:
    pid = "C00"
    level = "exploration"
    mode = "plain"  # "plain" | "frontend"
    tiers = {"quick": dict(runs=1000, budget_s=40), "thorough": dict(runs=100000, budget_s=600)}
    technique = ""
    real_stub = {}
    assumptions = []
    rule = ""
    probe_names = []

    def setup(self):
        pass

    def gen(self, seed, tier):
        raise NotImplementedError

    def enumerate(self, tier):
        """optional non-seeded part: a list of plans run in addition to the seeded ones"""
        return []

    def execute(self, plan) -> Result:
        raise NotImplementedError

    def simplifications(self, plan):
        """yield simpler variants of `plan` (knobs / step arguments); ddmin over plan['steps'] is generic"""
        return ()

    def finding_shape(self, plan, violation):
        return ""

    def min_steps(self):
        return 0
