#!/usr/bin/env python3
"""regenerates /verif/MANIFEST.json from the property modules that exist (run from /verif)"""
import json, os, sys
HERE = os.path.dirname(os.path.dirname(os.path.abspath(__file__)))
sys.path.insert(0, os.path.join(HERE, "sim"))

NA = {
 "C01": "pure function of (configuration, key, database, keyword): no schedule, clock, crash point or history for a simulator to control; only the input varies (DESIGN.md section 5)",
 "C02": "pure function (absent-keyword input class of C01); its one known failure is reached as a by-product of C09 (DESIGN.md section 5)",
 "C03": "serialize/deserialize are pure functions; the network boundary adds no behaviour of its own to the property (DESIGN.md section 5)",
 "C04": "predicate on the bytes of one setup plus a claim about the library's RNG use; a simulator that owns the RNG can only falsify it (DESIGN.md section 5)",
 "C05": "pure function of two databases (index shape) (DESIGN.md section 5)",
 "C06": "pure function plus a statistical claim over the library's own shuffles (DESIGN.md section 5)",
 "C08": "pure function of the configuration dictionary (DESIGN.md section 5)",
 "C14": "pure function (AES-CBC wrapper) (DESIGN.md section 5)",
 "C15": "pure function (PRP bijections) (DESIGN.md section 5)",
 "C16": "pure function (PRF / hash wrappers) (DESIGN.md section 5)",
 "C17": "pure function (byte-level encodings) (DESIGN.md section 5)",
 "C18": "pure value type (bit strings) (DESIGN.md section 5)",
}
LEVEL_TEXT = {}
DESIGN_REF = {"C07": "4/C07", "C09": "4/C09", "C10": "4/C10", "C11": "4/C11", "C12": "4/C12", "C13": "4/C13", "C19": "4/C19", "C20": "4/C20"}

def main():
    import importlib
    checks = []
    built = []
    for pid in ["C07", "C09", "C10", "C11", "C12", "C13", "C19", "C20"]:
        if not os.path.exists(os.path.join(HERE, "sim", "ssesim", "props", pid.lower() + ".py")):
            continue
        p = importlib.import_module(f"ssesim.props.{pid.lower()}").PROPERTY
        built.append(pid)
        checks.append({
            "property_id": pid,
            "quick_cmd": f"bin/check {pid} --tier quick",
            "thorough_cmd": f"bin/check {pid} --tier thorough",
            "evidence_file": f"evidence/{pid}.json",
            "replay_cmd_template": f"bin/check {pid} --replay {{path}}",
            "engine": "ssesim",
            "level_claimed": {"category": p.level, "text": p.level_text, "design_ref": "DESIGN.md section " + DESIGN_REF[pid]},
            "level_note": p.level_note,
            "technique": p.technique,
        })
    na = [{"property_id": k, "reason": v} for k, v in sorted(NA.items())]
    for pid in DESIGN_REF:
        if pid not in built:
            na.append({"property_id": pid, "reason": "simulation target (DESIGN.md section 4) whose check is not built yet in this revision; not claimed until it is"})
    na.sort(key=lambda x: x["property_id"])
    m = {
        "version": 1,
        "setup_cmd": "bin/setup",
        "hooks": {"guard": "SSEPY_VERIF", "enable": "no source hooks: every seam (event loop, transport, clock, file-system mutation calls, randomness) is installed from outside by the harness; the guard variable is unused by /repo",
                  "baseline_off_cmd": "cd /repo && /venv/bin/python -m pytest -ra -q -p no:cacheprovider --timeout=900 --continue-on-collection-errors",
                  "source_commits": [], "add_only": True},
        "engines": [{"name": "ssesim", "path": "sim/ssesim", "serves_properties": built,
                     "kind_free_text": "deterministic simulation with fault injection: virtual-time asyncio loop, in-memory TCP, simulated processes (kill/restart), file-system mutation seam, seeded randomness; plan files are replay files; ddmin minimisation"}],
        "checks": checks,
        "not_applicable": na,
        "notes": "Exit codes of every command: 0 held, 1 violation (VIOLATION line with replay), 2 harness failure (never a verdict). known_findings.txt lists known:/fixed: entries. VERIF_SEED, VERIF_TIER, VERIF_REPO honoured.",
    }
    with open(os.path.join(HERE, "MANIFEST.json"), "w") as f:
        json.dump(m, f, indent=1)
    print("wrote MANIFEST.json with checks", built)

main()
