mkdir -p /tmp/seed8 && for p in C07 C09 C10 C11 C12 C13 C19 C20; do git -C /repo worktree add -q --detach /tmp/seed8/$p HEAD; done; python3 - <<'EOF'
import json
props={}
for l in open('/verif/properties.jsonl'):
    p=json.loads(l); props[p['id']]=p
more={
"C07":"; a key object bound on first use (tokens of another key come out under the first key); a per-index parameter learned at setup overriding the index's own data at search time; server-side reply caches keyed by the optional token digest; a defensive deep copy skipped on a fast path (power-of-two sizes); in-place shuffles or pads of the caller's lists behind a configuration gate; the front end wiping caller-owned arguments after use",
"C09":"; upload-echo bookkeeping living only in default callbacks; paged results whose last page is detected by 'not full' (exact multiples of the page size hang); per-connection file handles that are never closed (descriptor leak); one de-duplication set shared across keywords; server merging defaults over stored configuration on reload; a repeated init echo killing the client's receive task",
"C10":"; a shared module-level template dict for a new service's meta; housekeeping by wall-clock file age (7 days); glob-based clean-up with the sid interpolated into the pattern; digest-keyed result caches; background index stores overlapping pipelined uploads; enum identity comparisons after a state file round trip",
"C11":"; a statistics log line that divides by the number of postings between writing the index and setting the flag; dirty checks against an aliased snapshot; de-duplication of identifiers before encrypting; mkdir(exist_ok) letting a second create reset an existing service; table-driven flag sync that skips the zero entry; joined hex decoding that re-cuts identifiers of unequal length",
"C12":"; a get-then-create of the per-sid lock spanning an await on the shared dictionary lock; take-over after a predecessor time-out; periodic 'still waiting' notices implemented with wait_for(acquire) that re-queue the waiter; reload trusting (mtime,size); LIFO waiter queues; wall-clock 'never clobber newer state' guards defeated by the clock stepping back",
"C13":"; temp file in another file system + shutil.move (truncate-copy fallback); hash()-bucketed folders; 're-create allowed' paths with unlink/clear/store windows; fsync without flush and rename inside the with block; lossy table-driven re-sync; start-up sweeps (rglob) deleting the other party's files on a shared HOME",
"C19":"; bytes() coercion accepting small ints in slice values; rollback that unlinks chunk files it created while a cached handle stays; chunk-snapshot iterators that miss writes made during iteration; rollback slices rebuilt from normalised bounds with negative steps; validation pre-passes that consume one-shot iterables; block-wise membership tests missing never-written zero items",
"C20":"; atomic sync losing the closed-file guard; .bak backup files resurrecting a released dictionary; canonical (sorted) on-disk order changing iteration order after reopen; restricted unpicklers narrower than the accepted value types; from_dict keeping the concrete mapping type (defaultdict); context-manager __exit__ returning a truthy value and swallowing exceptions",
}
import re
# reuse round-6 caught lists from the seeded README? rebuild from the round-6 prompt text saved nowhere -> reconstruct: read from DESIGN is overkill; use short generic list + 'more'
base=open('/verif/seeded/PROMPT_round3_example.txt').read()
p12=props["C12"]
ptxt12=f"{p12['id']}: {p12['title']}\n\nStatement: {p12['statement']}\n\nQuantifier: {p12['quantifier']['text']}\n\nRelevant files: {', '.join(p12['anchors']['files'])}\n"
tmpl=base.replace(ptxt12,"@PROPERTY@").replace("/tmp/seed3/C12","/tmp/seed8/@ID@").replace("This is the THIRD round","This is the EIGHTH round")
a=tmpl.index("so do NOT produce another one of them:"); b=tmpl.index("\n\nTASK:")
generic="caches / state shared across services, objects or processes (module-level, class-level, default arguments); stale state written back (cleanup, __del__, background tasks); locks dropped, pruned, re-queued or released by the wrong party; guards dropped or reordered; write-skipping by aliasing; non-atomic or mis-ordered persistence around a crash; leftovers of an interrupted step breaking the retry; size-gated paths (paging, chunking, compression, frame limits, 1-15 MB); hash() or pickle used as a stable identity; time-outs and idle limits; exceptions swallowed and turned into valid-looking values; malformed or unusual-but-valid inputs (special bytes, whitespace, glob characters, look-alike ids, empty databases); finalizers; alias-layer bugs"
tmpl=tmpl[:a]+"so do NOT produce another one of them (nor a close variant: the same mechanism at another site):\n   "+generic+"@MORE@\n\nThe harness is known NOT to reach: bugs that depend on CPython object addresses (id() reuse), on real OS worker processes or threads spawned by the code, on payloads beyond roughly 15 MB, on a particular order of callbacks inside one event-loop iteration, or on databases outside the valid domain (e.g. duplicate identifiers). Do not use those either; find something it should be able to reach but might not have thought of."+tmpl[b:]
for pid in more:
    p=props[pid]
    ptxt=f"{p['id']}: {p['title']}\n\nStatement: {p['statement']}\n\nQuantifier: {p['quantifier']['text']}\n\nRelevant files: {', '.join(p['anchors']['files'])}\n"
    open(f'/tmp/seed8/{pid}.prompt.txt','w').write(tmpl.replace('@ID@',pid).replace('@PROPERTY@',ptxt).replace('@MORE@',more[pid]))
print("ok")
EOF