#!/usr/bin/env python3
"""vet one sub-agent change and keep it under /verif/seeded/<id>/.
usage: tools/import_seeded.py <property> <dir with patch.diff demo*.py notes.md> <id> [extra test files...]
Confirms in a scratch worktree of /repo's HEAD: demo passes on the clean tree, patch applies, project imports, demo fails with the
patch, the affected existing test files still pass with the patch.  Writes meta.json with what was run."""
import glob
import json
import os
import shutil
import subprocess
import sys
import tempfile

HERE = os.path.dirname(os.path.dirname(os.path.abspath(__file__)))
PY = "/venv/bin/python"
ALWAYS_FAIL = {"test_close", "test_contains2", "test_context", "test_delete_item", "test_delete_item2", "test_exceptions",
               "test_from_dict_firstly", "test_iter", "test_set_value", "test_set_value2"}  # TestDBMDict, per BASELINE.json


def tests_for(paths):
    t = set()
    for p in paths:
        if p.startswith("data_persistence/persistent_array") or p.startswith("data_persistence/interfaces"):
            t.add("test/test_persistent_array.py")
        if p.startswith("data_persistence/persistent_dict") or p.startswith("data_persistence/bytes_shelf") or p.startswith("data_persistence/interfaces"):
            t.add("test/test_persistent_dict.py")
        if p.startswith("schemes/"):
            parts = p.split("/")
            if len(parts) >= 3 and parts[1] != "interface":
                t.add(f"test/test_sse_schemes/test_{parts[1]}_{parts[2]}.py")
            else:
                t.add("test/test_sse_schemes")
        if p.startswith("toolkit/"):
            t.update(["test/test_bits.py", "test/test_database_utils.py", "test/test_fpe.py", "test/test_sse_schemes/test_CJJ14_PiBas.py",
                      "test/test_sse_schemes/test_CJJ14_PiPack.py", "test/test_sse_schemes/test_CT14_Pi.py"])
    return sorted(t)


def main():
    pid, src, sid = sys.argv[1:4]
    extra = sys.argv[4:]
    patch = os.path.join(src, "patch.diff")
    demos = sorted(glob.glob(os.path.join(src, "demo*.py")))
    assert os.path.exists(patch) and demos, "need patch.diff and demo*.py"
    demo = demos[0]
    wt = tempfile.mkdtemp(prefix="vet-", dir="/tmp")
    os.rmdir(wt)
    log = {}
    try:
        subprocess.run(["git", "-C", "/repo", "worktree", "add", "-q", "--detach", wt, "HEAD"], check=True)
        env = dict(os.environ, PYTHONPATH=wt, HOME=tempfile.mkdtemp(prefix="vet-home-"))

        sub = os.environ.get("IMPORT_DEMO_DIR", "")  # some demos locate the project relative to their own path (seeded_out/<k>/demo.py)

        def run_demo():
            if sub:
                os.makedirs(os.path.join(wt, sub), exist_ok=True)
                shutil.copy(demo, os.path.join(wt, sub, os.path.basename(demo)))
                r = subprocess.run([PY, os.path.join(sub, os.path.basename(demo))], cwd=wt, env=env, capture_output=True, text=True, timeout=600)
                shutil.rmtree(os.path.join(wt, sub.split("/")[0]), ignore_errors=True)
                return r.returncode, (r.stdout + r.stderr)[-400:]
            shutil.copy(demo, os.path.join(wt, os.path.basename(demo)))
            if os.path.basename(demo).endswith("_test.py") or os.path.basename(demo).startswith("test_"):
                cmd = [PY, "-m", "pytest", "-q", "-p", "no:cacheprovider", os.path.basename(demo)]
            else:
                cmd = [PY, os.path.basename(demo)]
            r = subprocess.run(cmd, cwd=wt, env=env, capture_output=True, text=True, timeout=600)
            os.unlink(os.path.join(wt, os.path.basename(demo)))
            return r.returncode, (r.stdout + r.stderr)[-400:]
        rc, tail = run_demo()
        log["demo_on_clean_tree"] = rc
        if rc != 0:
            print("REJECT: demo fails on the clean tree:", tail)
            return 1
        r = subprocess.run(["git", "-C", wt, "apply", patch], capture_output=True, text=True)
        if r.returncode != 0:
            print("REJECT: patch does not apply:", r.stderr)
            return 1
        files = subprocess.run(["git", "-C", wt, "diff", "--name-only"], capture_output=True, text=True).stdout.split()
        log["files_changed"] = files
        r = subprocess.run([PY, "-c", "import schemes, toolkit, data_persistence, frontend.client.services.service, frontend.server.connector, run_client, run_server"],
                           cwd=wt, env=env, capture_output=True, text=True)
        log["imports_ok"] = r.returncode == 0
        if r.returncode != 0:
            print("REJECT: project does not import with the patch:", r.stderr[-400:])
            return 1
        rc, tail = run_demo()
        log["demo_with_patch"] = rc
        if rc == 0:
            print("REJECT: demo passes with the patch applied")
            return 1
        log["demo_failure_tail"] = tail[-300:]
        tests = sorted(set(tests_for(files) + extra))
        log["tests_run_with_patch"] = {}
        for t in tests:
            r = subprocess.run([PY, "-m", "pytest", "-q", "-p", "no:cacheprovider", "--timeout=900", "-x" if False else "-q", t], cwd=wt, env=env,
                               capture_output=True, text=True, timeout=3600)
            failed = [l.split("::")[-1].split(" ")[0] for l in r.stdout.splitlines() if l.startswith("FAILED")]
            unexpected = [f for f in failed if not (f in ALWAYS_FAIL and "TestDBMDict" in r.stdout)]
            log["tests_run_with_patch"][t] = (r.stdout.strip().splitlines() or ["?"])[-1]
            if unexpected:
                print(f"REJECT: existing tests fail with the patch in {t}: {unexpected}")
                return 1
        dst = os.path.join(HERE, "seeded", sid)
        os.makedirs(dst, exist_ok=True)
        shutil.copy(patch, os.path.join(dst, "patch.diff"))
        shutil.copy(demo, os.path.join(dst, os.path.basename(demo)))
        notes = os.path.join(src, "notes.md")
        needs = open(notes).read() if os.path.exists(notes) else ""
        if needs:
            shutil.copy(notes, os.path.join(dst, "notes.md"))
        meta = dict(id=sid, property=pid, origin="independent sub-agent given only the property text and a scratch worktree",
                    files_changed=files, needs_to_manifest="see notes.md", verified=log,
                    what_i_ran=["demo on clean scratch worktree (exit 0)", "git apply patch.diff", "import of all top-level packages",
                                "demo with patch (non-zero exit)", "pytest of affected test files with patch: " + ", ".join(tests or ["(no existing test touches these files)"])],
                    caught_by_expected=[pid])
        with open(os.path.join(dst, "meta.json"), "w") as f:
            json.dump(meta, f, indent=1)
        print("KEPT", dst, "| files:", files, "| tests:", log["tests_run_with_patch"])
        return 0
    finally:
        subprocess.run(["git", "-C", "/repo", "worktree", "remove", "--force", wt], capture_output=True)
        shutil.rmtree(wt, ignore_errors=True)
        shutil.rmtree(env.get("HOME", "/nonexistent"), ignore_errors=True) if "env" in dir() else None


sys.exit(main())
