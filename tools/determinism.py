#!/usr/bin/env python3
"""determinism experiment: N seeded runs per property executed (A) in one interpreter ascending, (B) in a fresh interpreter in
reverse order, (C) split over 4 interpreters; all digests must agree (PYTHONHASHSEED=0 everywhere: the code under test
depends on it, DP17 pickles a set).
usage: tools/determinism.py [N] [props...]"""
import json, os, subprocess, sys, tempfile, time
HERE = os.path.dirname(os.path.dirname(os.path.abspath(__file__)))
N = int(sys.argv[1]) if len(sys.argv) > 1 else 200
props = sys.argv[2:] or ["C07", "C09", "C10", "C11", "C12", "C13", "C19", "C20"]
py = os.environ.get("VERIF_PYTHON", "/venv/bin/python")

def launch(pid, lo, hi, hashseed, det, out):
    cmd = [py, "-u", "-m", "ssesim", pid, "--tier", "quick", "--internal-worker", "--master", "0", "--nworkers", "999999", "--wid", "999998",
           "--detn", str(N), "--budget", "100000", "--lo", str(lo), "--hi", str(hi), "--out", out] + (["--det"] if det else [])
    env = dict(os.environ, PYTHONHASHSEED=str(hashseed), PYTHONPATH=os.path.join(HERE, "sim"))
    return subprocess.Popen(cmd, env=env, cwd=HERE, stdout=subprocess.PIPE, stderr=subprocess.STDOUT)

bad = 0
for pid in props:
    t0 = time.time()
    d = tempfile.mkdtemp(prefix="det-")
    jobs = [("A", launch(pid, 0, N, 0, False, f"{d}/A.json")), ("B", launch(pid, 0, N, 0, True, f"{d}/B.json"))]
    q = -(-N // 4)
    for i in range(4):
        jobs.append((f"C{i}", launch(pid, i * q, min(N, (i + 1) * q), 0, False, f"{d}/C{i}.json")))
    res = {}
    for name, p in jobs:
        so, _ = p.communicate(timeout=3600)
        if p.returncode != 0:
            print(pid, name, "worker failed:", so.decode()[-800:]); bad += 1; continue
        r = json.load(open(f"{d}/{name}.json"))
        if r.get("harness_errors"):
            print(pid, name, "harness errors:", r["harness_errors"][:1]); bad += 1
        if r.get("selfcheck_mismatch"):
            print(pid, name, "in-interpreter repeat mismatch", r["selfcheck_mismatch"]); bad += 1
        res[name] = r["digests"]
    A = res.get("A", {})
    C = {}
    for i in range(4):
        C.update(res.get(f"C{i}", {}))
    mism = [(k, "B" if res.get("B", {}).get(k) != A[k] else "", "C" if C.get(k) != A[k] else "") for k in A if res.get("B", {}).get(k) != A[k] or C.get(k) != A[k]]
    print(f"{pid}: {len(A)} seeds x 3 placements (1 interpreter ascending / fresh interpreter reversed / 4 interpreters; PYTHONHASHSEED pinned to 0: DP17's wire bytes depend on it): "
          f"{'all digests equal' if not mism and len(A) == N else 'MISMATCH ' + str(mism[:10])}  [{time.time()-t0:.1f}s]")
    bad += bool(mism) or len(A) != N
    subprocess.run(["rm", "-rf", d])
sys.exit(1 if bad else 0)
