#!/usr/bin/env python3
import concurrent.futures as cf, glob, json, os, re, shutil, subprocess, sys, tempfile, time
HERE = os.path.dirname(os.path.dirname(os.path.abspath(__file__)))
REPO = "/repo"
args = sys.argv[1:]
jobs = 3
if args[:1] == ["-j"]:
    jobs = int(args[1]); args = args[2:]
pat = args[0] if args else ""
runs = os.environ.get("MUTANT_RUNS")  # optional override of the number of seeded runs

def items():
    out = []
    for p in sorted(glob.glob(os.path.join(HERE, "mutants", "*.patch"))):
        name = os.path.basename(p)[:-6]
        out.append((name, name.split("-")[0], p, "quick", None, {}, "caught"))
    for d in sorted(glob.glob(os.path.join(HERE, "seeded", "*"))):
        meta = os.path.join(d, "meta.json")
        if os.path.exists(meta) and os.path.exists(os.path.join(d, "patch.diff")):
            m = json.load(open(meta))
            for pid in m.get("caught_by_expected", [m["property"]]):
                out.append(("seeded/" + os.path.basename(d) + "@" + pid, pid, os.path.join(d, "patch.diff"), m.get("tier", "quick"), m.get("runs"), m.get("env", {}), m.get("expected_outcome", "caught")))
    return [x for x in out if pat in x[0]]

def one(item):
    name, pid, patch, tier, nruns, xenv, expected = item
    t0 = time.time()
    wt = tempfile.mkdtemp(prefix="mut-", dir="/tmp")
    os.rmdir(wt)
    try:
        subprocess.run(["git", "-C", REPO, "worktree", "add", "-q", "--detach", wt, "HEAD"], check=True, capture_output=True)
        r = subprocess.run(["git", "-C", wt, "apply", patch], capture_output=True, text=True)
        if r.returncode != 0:
            return name, "PATCH-DOES-NOT-APPLY", r.stderr[-200:], 0
        cmd = [os.path.join(HERE, "bin", "check"), pid, "--tier", tier] + (["--runs", str(nruns or runs)] if (nruns or runs) else [])
        env = dict(os.environ, VERIF_REPO=wt, VERIF_NO_EVIDENCE="1", VERIF_OUT=wt + "-out", **xenv)
        r = subprocess.run(cmd, env=env, cwd=HERE, capture_output=True, text=True, timeout=1800)
        viol = [l for l in r.stdout.splitlines() if l.startswith("VIOLATION")]
        detail = next((l.strip() for l in r.stdout.splitlines() if l.startswith("  class=")), "")
        status = "caught" if r.returncode == 1 and viol else ("MISSED" if r.returncode == 0 else f"HARNESS(exit {r.returncode})")
        if expected != "caught" and status != "caught":
            status = "not-caught(documented)"
        if status.startswith("HARNESS"):
            detail = r.stdout[-600:]
        return name, status, detail[:230], time.time() - t0
    finally:
        subprocess.run(["git", "-C", REPO, "worktree", "remove", "--force", wt], capture_output=True)
        shutil.rmtree(wt, ignore_errors=True)
        shutil.rmtree(wt + "-out", ignore_errors=True)

its = items()
bad = 0
with cf.ThreadPoolExecutor(jobs) as ex:
    for name, status, detail, dt in ex.map(one, its):
        print(f"{status:8s} {name:48s} {dt:6.1f}s  {detail}", flush=True)
        bad += status not in ("caught", "not-caught(documented)")
print(f"{len(its) - bad}/{len(its)} as expected (caught, or documented as out of reach)")
sys.exit(1 if bad else 0)
