#!/usr/bin/env python3
"""(re)generates /verif/mutants/<P>-<name>.patch from the table below, against /repo's HEAD.
Each mutant is a single textual replacement that compiles and leaves the repository's own tests passing
(none touches behaviour the tests check)."""
import difflib
import os
import subprocess
import sys

HERE = os.path.dirname(os.path.dirname(os.path.abspath(__file__)))
REPO = os.environ.get("VERIF_REPO", "/repo")
SM = "frontend/server/services/services_manager.py"
SS = "frontend/server/services/service.py"
SF = "frontend/server/services/file_manager.py"
CS = "frontend/client/services/service.py"
CF = "frontend/client/services/file_manager.py"
PA = "data_persistence/persistent_array.py"
PD = "data_persistence/persistent_dict.py"
BS = "data_persistence/bytes_shelf.py"

M = [
    # ---- C12
    ("C12", "no-wait", SM, "        async with sid_lock:  # wait", "        if True:  # wait"),
    ("C12", "no-control", SM, "            service.send_message(MsgType.CONTROL, reason.encode('utf8'))\n", "            pass\n"),
    ("C12", "close-writes-zero", SS, "    def close_service(self):\n        self._store_service_meta()", "    def close_service(self):\n        FileManager.write_service_meta(self.sid, {\"state\": SERVICE_STATE.NOT_EXISTS})"),
    ("C12", "no-reload-after-wait", SM, "            service.reload()\n", ""),
    ("C12", "wait-for-registered-only", SM, "        sid_lock = self._sid_locks.setdefault(sid, asyncio.Lock())\n        if sid_lock.locked():",
     "        sid_lock = self._sid_locks.setdefault(sid, asyncio.Lock())\n        if sid in self._service_dict:\n            await self._service_dict[sid].wait_closed()\n            sid_lock = self._sid_locks[sid] = asyncio.Lock()\n        if sid_lock.locked():"),
    ("C12", "upload-no-ready-guard", SS, "        if self.get_current_service_state() == SERVICE_STATE.ALL_READY:\n            reason = f\"The database of service {self.short_sid} has been already uploaded.\"",
     "        if False:\n            reason = f\"The database of service {self.short_sid} has been already uploaded.\""),
    # ---- C13
    ("C13", "state-before-config", SS, "        FileManager.write_service_config(self.sid, config)\n        self.config = config\n        self.service_meta[\"state\"] = SERVICE_STATE.CONFIG_UPLOADED_BUT_EDB_NOT_UPLOADED\n        FileManager.write_service_meta(self.sid, self.service_meta)\n",
     "        self.service_meta[\"state\"] = SERVICE_STATE.CONFIG_UPLOADED_BUT_EDB_NOT_UPLOADED\n        FileManager.write_service_meta(self.sid, self.service_meta)\n        FileManager.write_service_config(self.sid, config)\n        self.config = config\n"),
    ("C13", "server-meta-in-place", SF, "    tmp_path = service_dir_path.joinpath(\"service_meta.tmp\")\n    with open(tmp_path, \"wb\") as f:\n        pickle.dump(meta, f)\n    os.replace(tmp_path, service_dir_path.joinpath(\"service_meta\"))",
     "    with open(service_dir_path.joinpath(\"service_meta\"), \"wb\") as f:\n        pickle.dump(meta, f)"),
    ("C13", "client-meta-in-place", CF, "    tmp_path = service_dir_path.joinpath(\"service_meta.tmp\")\n    with open(tmp_path, \"wb\") as f:\n        pickle.dump(meta, f)\n    os.replace(tmp_path, service_dir_path.joinpath(\"service_meta\"))",
     "    with open(service_dir_path.joinpath(\"service_meta\"), \"wb\") as f:\n        pickle.dump(meta, f)"),
    ("C13", "loader-keyed-on-dir", SF, "    return _PROGRAM_PATH.joinpath(sid).joinpath(\"service_meta\").exists()", "    return _PROGRAM_PATH.joinpath(sid).exists()"),
    ("C13", "mkdir-not-idempotent", SF, "    _PROGRAM_PATH.joinpath(sid).mkdir(exist_ok=True)", "    _PROGRAM_PATH.joinpath(sid).mkdir()"),
    ("C13", "state-before-index", SS, "        FileManager.write_encrypted_database(self.sid, edb_bytes)\n        self.service_meta[\"state\"] = SERVICE_STATE.ALL_READY\n        FileManager.write_service_meta(self.sid, self.service_meta)\n",
     "        self.service_meta[\"state\"] = SERVICE_STATE.ALL_READY\n        FileManager.write_service_meta(self.sid, self.service_meta)\n        FileManager.write_encrypted_database(self.sid, edb_bytes)\n"),
    ("C13", "client-flag-before-key", CS, "        FileManager.write_key(self.sid, sse_key.serialize())\n        self.set_current_service_state(ClientServiceState.set_key_created(self.get_current_service_state(), True))\n        self._store_service_meta()\n",
     "        self.set_current_service_state(ClientServiceState.set_key_created(self.get_current_service_state(), True))\n        self._store_service_meta()\n        FileManager.write_key(self.sid, sse_key.serialize())\n"),
    # ---- C10
    ("C10", "config-no-guard", SS, "        if self.get_current_service_state() != SERVICE_STATE.NOT_EXISTS:\n            reason = f\"The config of service {self.short_sid} has been already uploaded.\"",
     "        if False:\n            reason = f\"The config of service {self.short_sid} has been already uploaded.\""),
    ("C10", "upload-no-ready-guard", SS, "        if self.get_current_service_state() == SERVICE_STATE.ALL_READY:\n            reason = f\"The database of service {self.short_sid} has been already uploaded.\"",
     "        if False:\n            reason = f\"The database of service {self.short_sid} has been already uploaded.\""),
    ("C10", "state-not-stored-after-upload", SS, "        self.service_meta[\"state\"] = SERVICE_STATE.ALL_READY\n        FileManager.write_service_meta(self.sid, self.service_meta)\n", "        self.service_meta[\"state\"] = SERVICE_STATE.ALL_READY\n"),
    ("C10", "foreign-sid-served", SS, "            if msg_type is None or sid is None or sid != self.sid:\n                continue\n            content_byte = message_dict.get(\"content\")\n            self.recv_msg_handler[msg_type](content_byte, message_dict)",
     "            if msg_type is None or sid is None:\n                continue\n            content_byte = message_dict.get(\"content\")\n            self.recv_msg_handler[msg_type](content_byte, message_dict)"),
    ("C10", "upload-allowed-without-config", SS, "        if self.get_current_service_state() == SERVICE_STATE.NOT_EXISTS:\n            reason = f\"The config of service {self.short_sid} has not been uploaded.\"\n            self.send_message(MsgType.UPLOAD_DB,",
     "        if False:\n            reason = f\"The config of service {self.short_sid} has not been uploaded.\"\n            self.send_message(MsgType.UPLOAD_DB,"),
    ("C10", "edb-cached-in-manager", SS, "        if self.edb is not None:\n            return\n\n        self._load_sse_module()\n        self._load_config_object()\n\n        edb_bytes = FileManager.read_encrypted_database(self.sid)\n        EDBClass = self.sse_module_loader.SSEEncryptedDatabase\n        self.edb = EDBClass.deserialize(edb_bytes, self.config_object)",
     "        if self.edb is not None:\n            return\n\n        self._load_sse_module()\n        self._load_config_object()\n\n        cache = globals().setdefault(\"_EDB_CACHE\", {})\n        if \"edb\" not in cache:\n            edb_bytes = FileManager.read_encrypted_database(self.sid)\n            EDBClass = self.sse_module_loader.SSEEncryptedDatabase\n            cache[\"edb\"] = EDBClass.deserialize(edb_bytes, self.config_object)\n        self.edb = cache[\"edb\"]"),
    # ---- C11
    ("C11", "key-regenerated", CS, "        if ClientServiceState.is_key_created(self.get_current_service_state()):  # todo should allow re-create", "        if False:  # todo should allow re-create"),
    ("C11", "encrypt-again", CS, "        if ClientServiceState.is_db_encrypted(self.get_current_service_state()):  # todo should allow re-create", "        if False:  # todo should allow re-create"),
    ("C11", "key-flag-not-persisted", CS, "        self.set_current_service_state(ClientServiceState.set_key_created(self.get_current_service_state(), True))\n        self._store_service_meta()\n", "        self.set_current_service_state(ClientServiceState.set_key_created(self.get_current_service_state(), True))\n"),
    ("C11", "validity-ignored", CS, "        if not _check_config_valid(config):\n            raise ValueError(\"The configuration is not valid for the chosen scheme.\")\n", "        _check_config_valid(config)\n"),
    # (dropping the client's is_db_uploaded guard of search is equivalent for C11: the server refuses and the client times out -> still a refusal)
    ("C13", "client-deletes-index-before-ack", CS, "        self._load_sse_encrypted_database()\n\n        fut = None", "        self._load_sse_encrypted_database()\n        FileManager.delete_encrypted_database(self.sid)\n\n        fut = None"),
    # ---- C09
    ("C09", "state-stored-only-on-close", SS, "        self.service_meta[\"state\"] = SERVICE_STATE.ALL_READY\n        FileManager.write_service_meta(self.sid, self.service_meta)\n", "        self.service_meta[\"state\"] = SERVICE_STATE.ALL_READY\n"),
    # ---- C07
    ("C07", "pibas-search-pops", "schemes/CJJ14/PiBas/construction.py", "            cipher = D.get(addr)", "            cipher = D.pop(addr, None)"),
    ("C07", "ct14-no-deepcopy", "schemes/CT14/Pi/construction.py", "        padded_database = copy.deepcopy(database)  # need to deep copy!! Otherwise, it will affect the original database", "        padded_database = database"),
    ("C07", "anss16-shallow-copy", "schemes/ANSS16/Scheme3/construction.py", "        padded_database = copy.deepcopy(database)  # need to deep copy!! Otherwise, it will affect the original database", "        padded_database = dict(database)"),
    # ---- C19
    ("C19", "read-offset-in-items", PA, "        offset_bytes = offset * self.__item_size\n        file.seek(offset_bytes, 0)\n        ret = file.read(self.__item_size)", "        offset_bytes = offset * self.__item_size\n        file.seek(offset_bytes if file_id == 0 else offset, 0)\n        ret = file.read(self.__item_size)"),
    ("C19", "no-rollback", PA, "            except:  # Other exceptions, roll back the array state to before it was written\n                self[key] = old_items\n                raise", "            except:  # Other exceptions\n                raise"),
    # (old_items[:-1] would be equivalent: the failing position itself was never written)
    ("C19", "rollback-one-short", PA, "                self[key] = old_items\n", "                self[key] = old_items[:-2]\n"),
    ("C19", "bounds-off-by-one", PA, "        index = operator.index(item)\n        if index >= len(self) or index < -len(self):", "        index = operator.index(item)\n        if index > len(self) or index < -len(self):"),
    ("C19", "truncate-on-reopen", PA, "        try:\n            file = open(file_path, \"rb+\")\n        except FileNotFoundError:\n            file = open(file_path, \"wb+\")", "        file = open(file_path, \"wb+\")"),
    ("C19", "pad-right", PA, "        content = b\"\\x00\" * (self.__item_size - len(content)) + content\n\n        file_id, offset", "        content = content + b\"\\x00\" * (self.__item_size - len(content))\n\n        file_id, offset"),
    ("C19", "getitem-unnormalised", PA, "        ret = self._get_bytes_by_index(index % len(self))", "        ret = self._get_bytes_by_index(index)"),
    # ---- C20
    ("C20", "from-dict-alias", PD, "        pickled_dict.__data = dict(dict_)  # Be Careful, Copy!", "        pickled_dict.__data = dict_  # Be Careful, Copy!"),
    ("C20", "close-without-sync", PD, "            if not self.__file.closed:\n                self.sync()\n                self.__file.close()", "            if not self.__file.closed:\n                self.__file.close()"),
    ("C20", "clear-rebinds", PD, "    def clear(self):\n        self.__data.clear()", "    def clear(self):\n        self.__data = {}"),
    # (sync without truncate(0) is equivalent for the property: pickle.load ignores the stale tail of the file)
    ("C20", "type-check-removed", PD, "        if not isinstance(value, typing.ByteString):\n            raise TypeError(\n                \"The content should be a byte string.\"\n            )\n\n        self.__data[key] = value", "        self.__data[key] = value"),
    ("C20", "delete-swallows-keyerror", PD, "    def __delitem__(self, key: bytes):\n        del self.__data[key]", "    def __delitem__(self, key: bytes):\n        self.__data.pop(key, None)"),
    ("C20", "shelf-cache-not-invalidated", BS, "        del self.dict[key]\n        try:\n            del self.cache[key]\n        except KeyError:\n            pass", "        del self.dict[key]"),
]


def main():
    out = os.path.join(HERE, "mutants")
    os.makedirs(out, exist_ok=True)
    n = 0
    for pid, name, path, old, new in M:
        if old is None:
            continue  # hand-written patch kept in mutants/ as is
        src = subprocess.run(["git", "-C", REPO, "show", f"HEAD:{path}"], capture_output=True, text=True, check=True).stdout
        if src.count(old) != 1:
            print(f"!! {pid}-{name}: pattern occurs {src.count(old)} times in {path}")
            continue
        dst = src.replace(old, new)
        diff = "".join(difflib.unified_diff(src.splitlines(True), dst.splitlines(True), f"a/{path}", f"b/{path}"))
        with open(os.path.join(out, f"{pid}-{name}.patch"), "w") as f:
            f.write(diff)
        n += 1
    print(f"wrote {n} mutants to {out}")


main()
