#!/usr/bin/env python3
"""usage: tools/update_design_table.py <selftest log>
replaces the full table of DESIGN.md section 10 by one generated from the log and prints the counts for the section's intro"""
import os, re, subprocess, sys
HERE = os.path.dirname(os.path.dirname(os.path.abspath(__file__)))
log = sys.argv[1]
table = subprocess.run([sys.executable, os.path.join(HERE, "tools", "sensitivity_table.py"), log], capture_output=True, text=True, check=True).stdout
p = os.path.join(HERE, "DESIGN.md")
s = open(p).read()
a = s.index("| change | what it does | check | outcome | first violation class |")
b = a
lines = s[a:].split("\n")
n = 0
for l in lines:
    if l.startswith("|"):
        n += len(l) + 1
    else:
        break
s = s[:a] + table + s[a + n:]
open(p, "w").write(s)
rows = [l for l in table.splitlines() if l.startswith("| mutants/") or l.startswith("| seeded/")]
mut = [l for l in rows if l.startswith("| mutants/")]
sed = [l for l in rows if l.startswith("| seeded/")]
ids = {l.split("|")[1].strip() for l in sed}
def st(l): return l.split("|")[4].strip()
by_id = {}
for l in sed:
    by_id.setdefault(l.split("|")[1].strip(), []).append(st(l))
print("mutants:", len(mut), "caught:", sum(st(l) == "caught" for l in mut))
print("seeded changes:", len(ids), "rows:", len(sed))
print("  caught by every named check:", sum(all(x == "caught" for x in v) for v in by_id.values()))
print("  documented:", sorted(k for k, v in by_id.items() if any(x.startswith("not-caught") for x in v)))
print("  other:", sorted(k for k, v in by_id.items() if any(x not in ("caught",) and not x.startswith("not-caught") for x in v)))
