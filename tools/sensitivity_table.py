#!/usr/bin/env python3
"""usage: tools/sensitivity_table.py <selftest log>  -> markdown for DESIGN.md section 10"""
import glob, json, os, re, sys
HERE = os.path.dirname(os.path.dirname(os.path.abspath(__file__)))
rows = {}
for line in open(sys.argv[1]):
    m = re.match(r"^(caught|MISSED|not-caught\(documented\)|HARNESS\S*|PATCH\S*)\s+(\S+)\s+([\d.]+)s\s*(.*)$", line.rstrip())
    if m:
        rows[m.group(2)] = (m.group(1), m.group(4))
def cls(detail):
    m = re.search(r"class=\['([^']*)', '([^']*)'", detail)
    return f"{m.group(1)} {m.group(2)}" if m else ""
print("| change | what it does | check | outcome | first violation class |")
print("|---|---|---|---|---|")
for name in sorted(k for k in rows if not k.startswith("seeded/")):
    st, d = rows[name]
    print(f"| mutants/{name} | single replacement, see tools/make_mutants.py | {name.split('-')[0]} | {st} | {cls(d)} |")
for name in sorted(k for k in rows if k.startswith("seeded/")):
    st, d = rows[name]
    sid, pid = name[len("seeded/"):].split("@")
    notes = os.path.join(HERE, "seeded", sid, "notes.md")
    title = ""
    if os.path.exists(notes):
        for l in open(notes):
            l = l.strip().lstrip("# ").strip()
            if l:
                title = l[:110]
                break
    print(f"| seeded/{sid} | {title} | {pid} | {st} | {cls(d)} |")
